//! Common run machinery: case = recorded data (JSON) that fully determines one execution; an
//! execution happens on a fresh OS thread whose std hash keys derive from the case's `hash_seed`.

use crate::rng::{self, Rng};
use serde::{Deserialize, Serialize};
use serde_json::{json, Value};
use std::collections::BTreeMap;
use std::panic::{catch_unwind, AssertUnwindSafe};

#[derive(Clone, Debug, Serialize, Deserialize, PartialEq)]
pub struct Verdict {
    pub property: String,
    pub class: String,
    pub facets: BTreeMap<String, String>,
    pub detail: String,
}

impl Verdict {
    pub fn new(property: &str, class: &str, facets: &[(&str, &str)], detail: String) -> Verdict {
        Verdict {
            property: property.to_string(),
            class: class.to_string(),
            facets: facets.iter().map(|(k, v)| (k.to_string(), v.to_string())).collect(),
            detail,
        }
    }
    pub fn key(&self) -> String {
        let f: Vec<String> = self.facets.iter().map(|(k, v)| format!("{}={}", k, v)).collect();
        format!("{}|{}|{}", self.property, self.class, f.join(","))
    }
}

#[derive(Clone, Debug, Default, Serialize, Deserialize)]
pub struct Outcome {
    pub verdicts: Vec<Verdict>,
    pub harness_error: Option<String>,
    pub nontrivial: bool,
    pub signature: String,
    pub probes: BTreeMap<String, u64>,
    pub faults_fired: BTreeMap<String, u64>,
    pub steps: BTreeMap<String, u64>,
    /// what the run did, as data (events, schedule taken, results) — deterministic fields only
    pub record: Value,
}

impl Outcome {
    pub fn probe(&mut self, k: &str) {
        *self.probes.entry(k.to_string()).or_insert(0) += 1;
    }
    pub fn probe_n(&mut self, k: &str, n: u64) {
        *self.probes.entry(k.to_string()).or_insert(0) += n;
    }
    pub fn step(&mut self, k: &str, n: u64) {
        *self.steps.entry(k.to_string()).or_insert(0) += n;
    }
    pub fn violate(&mut self, v: Verdict) {
        if !self.verdicts.iter().any(|x| x.key() == v.key()) {
            self.verdicts.push(v);
        }
    }
}

pub fn panic_msg(e: Box<dyn std::any::Any + Send>) -> String {
    if let Some(s) = e.downcast_ref::<&str>() {
        s.to_string()
    } else if let Some(s) = e.downcast_ref::<String>() {
        s.clone()
    } else {
        "panic (non-string payload)".to_string()
    }
}

/// Run `f` catching panics of the code under test. The panic message is returned.
pub fn guarded<R>(f: impl FnOnce() -> R) -> Result<R, String> {
    catch_unwind(AssertUnwindSafe(f)).map_err(panic_msg)
}

pub fn get_u64(case: &Value, k: &str) -> u64 {
    match case.get(k) {
        Some(Value::Number(n)) => n.as_u64().unwrap_or(0),
        Some(Value::String(s)) => {
            let s = s.trim_start_matches("0x");
            u64::from_str_radix(s, 16).unwrap_or(0)
        }
        _ => 0,
    }
}

pub fn hex64(v: u64) -> Value {
    Value::String(format!("0x{:016x}", v))
}

/// Execute one case on a fresh OS thread with pinned hash keys.
pub fn execute_case(case: &Value, scratch: &str) -> Outcome {
    // memory: a case on one of the large corpus files holds several copies of a model of some hundred
    // thousand cells (gigabytes); such cases run one at a time, the others around them (taken before the
    // watchdog starts: waiting is not hanging)
    let _heavy = if is_heavy(case) { Some(HEAVY.lock().unwrap_or_else(|e| e.into_inner())) } else { None };
    let hash_seed = get_u64(case, "hash_seed");
    let case2 = case.clone();
    let scratch2 = scratch.to_string();
    let h = std::thread::Builder::new()
        .stack_size(64 << 20)
        .spawn(move || {
            crate::shim::set_thread_hash_seed(hash_seed);
            let r = catch_unwind(AssertUnwindSafe(|| crate::engines::execute(&case2, &scratch2)));
            // never leave the thread armed
            let _ = crate::shim::disarm();
            match r {
                Ok(o) => o,
                Err(e) => Outcome { harness_error: Some(format!("engine panicked: {}", panic_msg(e))), ..Default::default() },
            }
        })
        .expect("spawn");
    // wall-clock watchdog: only reaps an execution that takes no end (a library call that never
    // returns). The verdict never depends on it; a reaped run is a harness error (or the engine's own
    // liveness verdict where the property promises termination).
    let t0 = std::time::Instant::now();
    let is_c16 = case["engine"] == "C16";
    // C16 promises that every save completes: there a run that never ends is a verdict (30 s is four
    // orders of magnitude above a normal C16 execution); elsewhere it is a harness error
    let limit = std::time::Duration::from_secs(if is_c16 { 30 } else { WATCHDOG_SECS.load(std::sync::atomic::Ordering::Relaxed) });
    while !h.is_finished() {
        if t0.elapsed() > limit && is_c16 {
            let mut o = Outcome::default();
            o.violate(Verdict::new(
                "C16",
                "C16:no-progress",
                &[("kind", "hang")],
                format!("concurrent saves did not complete within {:?} of wall-clock time although the controlled scheduler kept running a thread (blocked outside the scheduler's view: a lock the cfg seam does not substitute, or an endless loop)", limit),
            ));
            o.signature = "hang".into();
            HANGS.fetch_add(1, std::sync::atomic::Ordering::Relaxed);
            return o;
        }
        if t0.elapsed() > limit {
            // the thread is leaked; process exit reaps it
            return Outcome { harness_error: Some(format!("hang: execution did not finish within {:?}: {}", limit, case.to_string().chars().take(600).collect::<String>())), ..Default::default() };
        }
        std::thread::sleep(std::time::Duration::from_micros(200));
    }
    match h.join() {
        Ok(o) => o,
        Err(_) => Outcome { harness_error: Some("run thread died".into()), ..Default::default() },
    }
}

static HEAVY: std::sync::Mutex<()> = std::sync::Mutex::new(());

fn is_heavy(case: &Value) -> bool {
    if case["source"]["kind"] != "corpus" {
        return false;
    }
    let f = case["source"]["file"].as_str().unwrap_or("");
    crate::c11::file_cost(f) == 2
}

/// executions reaped as hangs so far (two are enough: the batch stops taking new runs)
pub static HANGS: std::sync::atomic::AtomicU64 = std::sync::atomic::AtomicU64::new(0);
pub static WATCHDOG_SECS: std::sync::atomic::AtomicU64 = std::sync::atomic::AtomicU64::new(120);

/// Fixed warm-up: pins every process-global the library initialises lazily (lazy_static regexes, the
/// built-in number-format map) on a thread whose hash keys derive from the process seed.
pub fn warm_up(process_seed: u64) -> Result<(), String> {
    let h = std::thread::spawn(move || {
        crate::shim::set_thread_hash_seed(rng::mix(process_seed, rng::fnv("warmup")));
        let r = catch_unwind(|| in_world(|| {
            let mut book = umya_spreadsheet::new_file();
            let ws = book.get_sheet_mut(&0).unwrap();
            ws.get_cell_mut("A1").set_value("warm");
            ws.get_cell_mut("A2").set_value_number(1.5);
            ws.get_cell_mut("A3").set_formula("SUM(A1:A2)");
            ws.get_style_mut("A2").get_number_format_mut().set_format_code("0.00");
            ws.get_style_mut("A3").get_number_format_mut().set_format_code("yyyy-mm-dd");
            let _ = ws.get_formatted_value("A2");
            let _ = ws.get_formatted_value("A3");
            ws.insert_new_row(&1, &1);
            let bytes = crate::world::save_mem(&book, false).unwrap();
            let mut b2 = crate::world::load_mem(&bytes, true).unwrap();
            b2.insert_new_row("Sheet1", &1, &1);
            let _ = crate::world::save_mem(&b2, true).unwrap();
        })).map(|_| crate::shim::thread_hash_calls());
        r
    });
    match h.join() {
        Ok(Ok(calls)) => {
            if calls == 0 {
                Err("S5: warm-up thread never asked our getrandom symbol for hash keys".into())
            } else {
                Ok(())
            }
        }
        _ => Err("warm-up panicked".into()),
    }
}

/// Generic minimiser over the arrays named in `keys` (ddmin-style: drop chunks, then single elements).
/// `same` decides whether a candidate still shows the same violation.
pub fn minimise(case: &Value, keys: &[&str], budget: usize, mut still_fails: impl FnMut(&Value) -> bool) -> (Value, usize) {
    let mut best = case.clone();
    let mut used = 0usize;
    for key in keys {
        let mut arr: Vec<Value> = match best.get(*key).and_then(|v| v.as_array()) {
            Some(a) => a.clone(),
            None => continue,
        };
        let mut chunk = (arr.len() / 2).max(1);
        while chunk >= 1 && !arr.is_empty() {
            let mut i = 0;
            let mut progress = false;
            while i < arr.len() {
                if used >= budget {
                    break;
                }
                let mut cand = arr.clone();
                let end = (i + chunk).min(cand.len());
                cand.drain(i..end);
                let mut c = best.clone();
                c[*key] = Value::Array(cand.clone());
                used += 1;
                if still_fails(&c) {
                    arr = cand;
                    best = c;
                    progress = true;
                } else {
                    i += chunk;
                }
            }
            if used >= budget {
                break;
            }
            if chunk == 1 && !progress {
                break;
            }
            chunk = if chunk == 1 { 1 } else { chunk / 2 };
            if chunk == 1 && !progress && arr.len() <= 1 {
                break;
            }
        }
    }
    (best, used)
}

pub fn new_case(engine: &str, run_seed: u64) -> Value {
    let mut hs = Rng::stream(run_seed, "hashseed");
    json!({
        "engine": engine,
        "run_seed": hex64(run_seed),
        "hash_seed": hex64(hs.next_u64()),
    })
}

/// Run library code where its lock type works: directly in the plain flavour, inside a one-thread
/// shuttle execution in the sched flavour.
#[cfg(not(umya_verif_sched))]
pub fn in_world(f: impl Fn() + Send + Sync + 'static) {
    f()
}

#[cfg(umya_verif_sched)]
pub fn in_world(f: impl Fn() + Send + Sync + 'static) {
    let log = std::sync::Arc::new(std::sync::Mutex::new(crate::c16::SchedLog::default()));
    let sched = crate::c16::SimSched::new("random", 1, 1, 1, vec![], log);
    let mut cfg = shuttle::Config::new();
    cfg.stack_size = 16 << 20;
    cfg.max_steps = shuttle::MaxSteps::None;
    cfg.failure_persistence = shuttle::FailurePersistence::None;
    cfg.silence_warnings = true;
    shuttle::Runner::new(sched, cfg).run(f);
}
