//! C06 — sheet list and annotations survive save/reload on the same cells. Why a simulation target:
//! the failure mode the property names ("moves to another cell, swaps with a sibling") is caused by
//! HashMap iteration order (two gathers numbered by iteration order, author ids from a HashSet, ...),
//! i.e. by the per-thread hash keys the simulator owns (S5): every such failure becomes an exactly
//! repeatable function of (workload, hash seed). The save goes through a chunking sink (S2).

use crate::annot::{self, AOp};
use crate::c13::SimSink;
use crate::decode;
use crate::engine::*;
use crate::rng::Rng;
use crate::world::{self, Op};
use serde::{Deserialize, Serialize};
use serde_json::{json, Value};
use std::collections::BTreeMap;
use umya_spreadsheet as umya;

#[derive(Clone, Debug, Serialize, Deserialize)]
#[serde(untagged)]
pub enum Step {
    A(AOp),
    O(Op),
}

/// reach: how often each kind of operation occurred in the histories that were executed
pub fn count_ops(case: &Value, out: &mut Outcome) {
    for s in case["steps"].as_array().cloned().unwrap_or_default() {
        let name = match (s["a"].as_str(), s["op"].as_str()) {
            (Some(a), _) => format!("annot:{}", a),
            (None, Some(o)) => format!("op:{}", o),
            _ => "op:?".to_string(),
        };
        out.step(&name, 1);
    }
}

pub fn build(case: &Value) -> umya::Spreadsheet {
    let steps: Vec<Step> = serde_json::from_value(case["steps"].clone()).unwrap_or_default();
    let mut b = umya::new_file();
    for i in 1..case["sheets"].as_u64().unwrap_or(1) {
        let _ = b.new_sheet(format!("S{}", i + 1));
    }
    for s in &steps {
        match s {
            Step::A(a) => {
                annot::apply(&mut b, a);
            }
            Step::O(o) => {
                world::apply(&mut b, o);
            }
        }
    }
    b
}

/// annotation projection: cells are reduced to their hyperlinks (target only; tooltips are not part
/// of the statement)
pub fn project(book: &umya::Spreadsheet) -> Value {
    let mut v = annot::annot_dump(book);
    if let Some(sheets) = v["sheets"].as_array_mut() {
        for s in sheets {
            let mut links = BTreeMap::new();
            if let Some(cells) = s["cells"].as_object() {
                for (k, c) in cells {
                    if !c["h"].is_null() {
                        links.insert(k.clone(), json!([c["h"][0], c["h"][1]]));
                    }
                }
            }
            s["hyperlinks"] = json!(links);
            s.as_object_mut().unwrap().remove("cells");
        }
    }
    v
}

fn save_chunked(book: &umya::Spreadsheet, light: bool, chunk: u64) -> Result<Vec<u8>, String> {
    let mut sink = SimSink {
        inner: std::io::Cursor::new(Vec::new()),
        chunk: chunk as usize,
        fail_at: None,
        mode: "none".into(),
        burst: 0,
        calls: 0,
        flushes: 0,
        hard_fired: false,
        soft_fired: 0,
    };
    let r = if light { umya::writer::xlsx::write_writer_light(book, &mut sink) } else { umya::writer::xlsx::write_writer(book, &mut sink) };
    r.map_err(|e| format!("{:?}", e))?;
    Ok(sink.inner.into_inner())
}

/// first differing annotation kind between two projections
pub fn first_diff(a: &Value, b: &Value) -> Option<(String, String)> {
    // defined names: the model keeps a workbook-scoped name either in the workbook list or in the list
    // of the sheet its address designates (the reader normalises to the latter); what has meaning is
    // (name, address, scope), scope = the owning sheet for sheet-local names
    let all_names = |v: &Value| -> Vec<(String, String, String)> {
        let mut out: Vec<(String, String, String)> = Vec::new();
        for d in v["book_defined_names"].as_array().cloned().unwrap_or_default() {
            out.push((d[0].as_str().unwrap_or("").to_string(), d[1].as_str().unwrap_or("").to_string(), String::new()));
        }
        for s in v["sheets"].as_array().cloned().unwrap_or_default() {
            for d in s["defined_names"].as_array().cloned().unwrap_or_default() {
                let scope = if d[2] == true { s["name"].as_str().unwrap_or("").to_string() } else { String::new() };
                out.push((d[0].as_str().unwrap_or("").to_string(), d[1].as_str().unwrap_or("").to_string(), scope));
            }
        }
        out.sort();
        out
    };
    let (da, db) = (all_names(a), all_names(b));
    if da != db {
        return Some(("defined_names".to_string(), format!("{:?} -> {:?}", da, db)));
    }
    for k in ["active", "book_protection"] {
        if a[k] != b[k] {
            return Some((k.to_string(), format!("{} -> {}", a[k], b[k])));
        }
    }
    let sa = a["sheets"].as_array().cloned().unwrap_or_default();
    let sb = b["sheets"].as_array().cloned().unwrap_or_default();
    let na: Vec<&Value> = sa.iter().map(|s| &s["name"]).collect();
    let nb: Vec<&Value> = sb.iter().map(|s| &s["name"]).collect();
    if na != nb {
        return Some(("sheet_list".into(), format!("{:?} -> {:?}", na, nb)));
    }
    for (i, (x, y)) in sa.iter().zip(sb.iter()).enumerate() {
        for k in ["state", "merges", "hyperlinks", "comments"] {
            if x[k] != y[k] {
                return Some((k.to_string(), format!("sheet {}: {} -> {}", i, trunc(&x[k]), trunc(&y[k]))));
            }
        }
        if let (Some(ax), Some(ay)) = (x["annot"].as_object(), y["annot"].as_object()) {
            for (k, vx) in ax {
                if ay.get(k) != Some(vx) {
                    return Some((k.clone(), format!("sheet {}: {} -> {}", i, trunc(vx), trunc(ay.get(k).unwrap_or(&Value::Null)))));
                }
            }
        }
    }
    None
}

/// getter projection (annot_dump) vs independent decoding of the same sheet; returns the first
/// differing kind
fn annot_vs_decoder(g: &Value, d: &Value) -> Option<(String, String)> {
    let en = |v: &Value| crate::decode::enum_name(v.as_str().unwrap_or(""));
    // validations
    let mut gv: Vec<Value> = g["validations"]
        .as_array()
        .cloned()
        .unwrap_or_default()
        .iter()
        .map(|v| json!({"sqref": v["sqref"], "type": en(&v["type"]), "f1": v["f1"], "f2": v["f2"], "prompt_title": v["prompt_title"], "prompt": v["prompt"], "error_title": v["error_title"], "error": v["error"]}))
        .collect();
    gv.sort_by_key(|v| v.to_string());
    if json!(gv) != d["validations"] {
        return Some(("validations".into(), format!("file {} workbook {}", trunc(&d["validations"]), trunc(&json!(gv)))));
    }
    let mut gc: Vec<Value> = g["cond_formats"]
        .as_array()
        .cloned()
        .unwrap_or_default()
        .iter()
        .map(|c| {
            let rules: Vec<Value> = c["rules"].as_array().cloned().unwrap_or_default().iter().map(|r| json!({"type": en(&r["type"]), "priority": r["priority"].to_string(), "text": r["text"], "formula": r["formula"]})).collect();
            json!({"sqref": c["sqref"], "rules": rules})
        })
        .collect();
    gc.sort_by_key(|v| v.to_string());
    if json!(gc) != d["cond_formats"] {
        return Some(("cond_formats".into(), format!("file {} workbook {}", trunc(&d["cond_formats"]), trunc(&json!(gc)))));
    }
    if g["auto_filter"] != d["auto_filter"] {
        return Some(("auto_filter".into(), format!("file {} workbook {}", d["auto_filter"], g["auto_filter"])));
    }
    // a colour stored as palette index or theme reference cannot be resolved without the palette: only
    // presence is compared then
    let tc_same = match (g["tab_color"].as_str(), d["tab_color"].as_str()) {
        (None, None) => true,
        (Some(a), Some(b)) => a == b || b.starts_with("indexed:") || b.starts_with("theme:"),
        _ => false,
    };
    if !tc_same {
        return Some(("tab_color".into(), format!("file {} workbook {}", d["tab_color"], g["tab_color"])));
    }
    let gp = &g["view"]["pane"];
    if !gp.is_null() || !d["pane"].is_null() {
        let gpn = json!({"h": gp["h"].as_f64().unwrap_or(0.0), "v": gp["v"].as_f64().unwrap_or(0.0), "tl": gp["tl"], "state": en(&gp["state"])});
        if gp.is_null() || gpn != d["pane"] {
            return Some(("view".into(), format!("pane: file {} workbook {}", d["pane"], gpn)));
        }
    }
    for k in ["header", "footer"] {
        if g[k] != d[k] {
            return Some((k.to_string(), format!("file {} workbook {}", d[k], g[k])));
        }
    }
    let gpr = &g["protection"];
    if !gpr.is_null() || !d["protection"].is_null() {
        let spin = gpr["spin"].as_u64().unwrap_or(0);
        let gn = json!({"alg": gpr["alg"], "hash": gpr["hash"], "salt": gpr["salt"], "spin": if gpr["hash"].as_str().map(|h| h.is_empty()).unwrap_or(true) && spin == 0 { "".to_string() } else { spin.to_string() }});
        let dn = &d["protection"];
        if gpr.is_null() || dn.is_null() || gn["alg"] != dn["alg"] || gn["hash"] != dn["hash"] || gn["salt"] != dn["salt"] {
            return Some(("protection".into(), format!("file {} workbook {}", dn, gn)));
        }
    }
    None
}

fn trunc(v: &Value) -> String {
    let s = v.to_string();
    if s.chars().count() > 300 {
        format!("{}…", s.chars().take(300).collect::<String>())
    } else {
        s
    }
}

pub fn execute(case: &Value, _scratch: &str) -> Outcome {
    let mut out = Outcome::default();
    let light = case["light"].as_bool().unwrap_or(false);
    let chunk = case["chunk"].as_u64().unwrap_or(0);
    let book = match guarded(|| build(case)) {
        Ok(b) => b,
        Err(p) => {
            out.probe("build_panics");
            out.record = json!({"build_panic": p});
            out.signature = "build-panic".into();
            return out;
        }
    };
    let p0 = match guarded(|| project(&book)) {
        Ok(v) => v,
        Err(_) => {
            out.probe("getters_panic_before_save");
            return out;
        }
    };
    let bytes = match guarded(|| save_chunked(&book, light, chunk)) {
        Ok(Ok(b)) => b,
        Ok(Err(e)) => {
            out.violate(Verdict::new("C06", "C06:save-fails", &[], format!("save failed: {}", e)));
            return out;
        }
        Err(p) => {
            out.violate(Verdict::new("C06", "C06:save-fails", &[], format!("save panicked: {}", p)));
            return out;
        }
    };
    // through the library's own reader
    match guarded(|| world::load_mem(&bytes, true)) {
        Ok(Ok(b2)) => match guarded(|| project(&b2)) {
            Ok(p1) => {
                if let Some((kind, detail)) = first_diff(&p0, &p1) {
                    out.violate(Verdict::new("C06", "C06:annotation-differs", &[("kind", &kind)], format!("after save+reload {} differs: {}", kind, detail)));
                }
            }
            Err(p) => out.violate(Verdict::new("C06", "C06:reload-fails", &[], format!("getters panic on the reloaded workbook: {}", p))),
        },
        Ok(Err(e)) => out.violate(Verdict::new("C06", "C06:reload-fails", &[], format!("reload failed: {}", e))),
        Err(p) => out.violate(Verdict::new("C06", "C06:reload-fails", &[], format!("reload panicked: {}", p.chars().take(200).collect::<String>()))),
    }
    // second generation through a lazily opened workbook in which exactly one sheet is materialised:
    // the annotations of the touched sheet and of the sheets copied raw must all still be the model's
    if let Some(k) = case["lazy_touch"].as_u64() {
        out.step("lazy_resaves", 1);
        let r = guarded(|| -> Result<Value, String> {
            let mut lb = world::load_mem(&bytes, false)?;
            let n = lb.get_sheet_count();
            if n > 0 {
                let _ = lb.get_sheet_mut(&((k as usize) % n));
            }
            let b2 = world::save_mem(&lb, light)?;
            let e = world::load_mem(&b2, true)?;
            Ok(project(&e))
        });
        match r {
            Ok(Ok(p2)) => {
                if let Some((kind, detail)) = first_diff(&p0, &p2) {
                    out.violate(Verdict::new("C06", "C06:annotation-differs", &[("kind", &kind), ("via", "lazy-resave")], format!("after save, lazy open touching sheet {}, save and reload {} differs: {}", k, kind, detail)));
                }
            }
            Ok(Err(e)) => out.violate(Verdict::new("C06", "C06:reload-fails", &[("via", "lazy-resave")], format!("lazy re-save failed: {}", e))),
            Err(p) => out.violate(Verdict::new("C06", "C06:reload-fails", &[("via", "lazy-resave")], format!("lazy re-save panicked: {}", p.chars().take(200).collect::<String>()))),
        }
    }
    // through the independent decoder: hyperlinks joined with .rels, merges, defined names, sheet list
    match decode::decode(&bytes) {
        Err(e) => out.violate(Verdict::new("C06", "C06:invalid-package", &[], e)),
        Ok(d) => {
            let sheets = p0["sheets"].as_array().cloned().unwrap_or_default();
            let names: Vec<String> = d.sheets.iter().map(|s| s.name.clone()).collect();
            let want: Vec<String> = sheets.iter().map(|s| s["name"].as_str().unwrap_or("").to_string()).collect();
            if names != want {
                out.violate(Verdict::new("C06", "C06:annotation-differs", &[("kind", "sheet_list"), ("via", "decoder")], format!("file has sheets {:?}, workbook {:?}", names, want)));
            } else {
                for (i, (ds, ps)) in d.sheets.iter().zip(sheets.iter()).enumerate() {
                    let mut got: BTreeMap<String, Value> = BTreeMap::new();
                    let mut dup = false;
                    for h in &ds.hyperlinks {
                        let v = match (&h.target, &h.location) {
                            (Some(t), _) => json!([t, false]),
                            (None, Some(l)) => json!([l, true]),
                            _ => json!([null, false]),
                        };
                        if got.insert(h.cell.clone(), v).is_some() {
                            dup = true;
                        }
                    }
                    if dup {
                        out.violate(Verdict::new("C06", "C06:annotation-differs", &[("kind", "hyperlinks"), ("via", "decoder")], format!("sheet {}: a cell carries two hyperlinks", i)));
                    }
                    if json!(got) != ps["hyperlinks"] {
                        out.violate(Verdict::new(
                            "C06",
                            "C06:annotation-differs",
                            &[("kind", "hyperlinks"), ("via", "decoder")],
                            format!("sheet {}: file (r:id joined with .rels) has {}, workbook has {}", i, trunc(&json!(got)), trunc(&ps["hyperlinks"])),
                        ));
                    }
                    let merges: Vec<String> = ds.merges.iter().cloned().collect();
                    if json!(merges) != ps["merges"] {
                        out.violate(Verdict::new("C06", "C06:annotation-differs", &[("kind", "merges"), ("via", "decoder")], format!("sheet {}: file has {:?}, workbook {}", i, merges, ps["merges"])));
                    }
                    // sheet-level settings through the independent decoder, by ECMA-376 names/defaults
                    if let Some((kind, detail)) = annot_vs_decoder(&ps["annot"], &ds.annot) {
                        out.violate(Verdict::new("C06", "C06:annotation-differs", &[("kind", &kind), ("via", "decoder")], format!("sheet {}: {}", i, detail)));
                    }
                    let want_state = crate::decode::enum_name(ps["state"].as_str().unwrap_or("Visible"));
                    if ds.state != want_state {
                        out.violate(Verdict::new("C06", "C06:annotation-differs", &[("kind", "state"), ("via", "decoder")], format!("sheet {}: file says {:?}, workbook {:?}", i, ds.state, want_state)));
                    }
                    let mut c = ds.comments.clone();
                    c.sort();
                    if json!(c) != ps["comments"] {
                        out.violate(Verdict::new("C06", "C06:annotation-differs", &[("kind", "comments"), ("via", "decoder")], format!("sheet {}: file has {}, workbook {}", i, trunc(&json!(c)), trunc(&ps["comments"]))));
                    }
                }
            }
            if let Some(e) = d.errors.first() {
                out.violate(Verdict::new("C06", "C06:invalid-package", &[], e.clone()));
            }
            // invariance under other hash seeds
            let extra: Vec<Value> = case["extra_hash_seeds"].as_array().cloned().unwrap_or_default();
            let base_content = d.content();
            for hs in extra {
                let hs = get_u64(&json!({ "x": hs }), "x");
                let case2 = case.clone();
                let r = std::thread::Builder::new()
                    .stack_size(32 << 20)
                    .spawn(move || {
                        crate::shim::set_thread_hash_seed(hs);
                        guarded(|| {
                            let b = build(&case2);
                            save_chunked(&b, case2["light"].as_bool().unwrap_or(false), 0)
                        })
                    })
                    .unwrap()
                    .join();
                match r {
                    Ok(Ok(Ok(bytes2))) => match decode::decode(&bytes2) {
                        Ok(d2) => {
                            out.step("hash_seeds", 1);
                            if d2.content() != base_content {
                                out.violate(Verdict::new("C06", "C06:hash-seed-dependent", &[], format!("decoded content under hash seed {:#x} differs from the content under the run's seed", hs)));
                            }
                            if bytes2 != bytes {
                                out.probe("output_bytes_depend_on_hash_seed");
                            }
                        }
                        Err(e) => out.violate(Verdict::new("C06", "C06:invalid-package", &[], format!("under hash seed {:#x}: {}", hs, e))),
                    },
                    _ => out.violate(Verdict::new("C06", "C06:save-fails", &[], format!("save under hash seed {:#x} failed", hs))),
                }
            }
        }
    }
    // reach
    let mut kinds: Vec<&str> = Vec::new();
    for s in p0["sheets"].as_array().cloned().unwrap_or_default().iter() {
        if s["hyperlinks"].as_object().map(|m| m.values().filter(|v| v[1] == false).count()).unwrap_or(0) >= 2 {
            out.probe("sheet_with_two_or_more_external_links");
        }
        if s["comments"].as_array().map(|a| a.len()).unwrap_or(0) >= 2 {
            out.probe("sheet_with_two_or_more_comments");
        }
        for k in ["validations", "cond_formats"] {
            if s["annot"][k].as_array().map(|a| !a.is_empty()).unwrap_or(false) {
                kinds.push(k);
            }
        }
    }
    out.step("steps", case["steps"].as_array().map(|a| a.len()).unwrap_or(0) as u64);
    count_ops(case, &mut out);
    out.nontrivial = case["steps"].as_array().map(|a| a.len() >= 2).unwrap_or(false);
    out.signature = format!("{:x}|{}", crate::rng::fnv(&case["steps"].to_string()), case["hash_seed"]);
    out.record = json!({"bytes": bytes.len(), "sheets": p0["sheets"].as_array().map(|a| a.len())});
    out
}

pub fn gen_steps(sw: &mut Rng, wl: &mut Rng, sheets: usize, n: usize) -> Vec<Step> {
    let alpha = sw.usize(6);
    let mut local_shared: std::collections::BTreeSet<usize> = std::collections::BTreeSet::new();
    // swarm profile: annotation-heavy (the default) or grid-heavy (values, formats, rows and columns inserted in
    // the middle of the history and the rows around the insertion point touched afterwards)
    let grid_heavy = sw.chance(1, 3);
    let structural = grid_heavy || sw.chance(1, 4);
    // swarm: which annotation kinds are on
    let mut aw = [0u32; 11];
    for w in aw.iter_mut() {
        *w = if sw.chance(1, 2) { 1 + sw.below(3) as u32 } else { 0 };
    }
    if aw.iter().all(|w| *w == 0) {
        aw[0] = 1;
    }
    // cell-level: text, rich, num, bool, formula, remove, style, hyperlink, comment, merge, defined name, table
    let cw: [u32; 13] = [2, sw.below(2) as u32, 1, sw.below(2) as u32, sw.below(3) as u32, sw.below(2) as u32, 1, 2 + sw.below(8) as u32, sw.below(6) as u32, sw.below(4) as u32, sw.below(4) as u32, sw.below(2) as u32, sw.below(2) as u32];
    let cw: [u32; 13] = if grid_heavy { [4, 1, 3, 1, 2, 1, 3, 1, 1, 1, 1, sw.below(2) as u32, sw.below(2) as u32] } else { cw };
    let cfg = world::GenCfg { sheets, ncells: 21, alpha, w: cw };
    let mut steps = Vec::new();
    if sw.chance(1, 30) {
        // a dozen sheets that each carry a comment (part numbers reach two digits: comments10.xml, ...)
        for k in 0..(11 + sw.usize(3)) {
            if k >= sheets {
                steps.push(Step::O(Op::NewSheet { name: format!("Many{}", k) }));
            }
            steps.push(Step::O(Op::Comment { sheet: k, cell: "B2".to_string(), author: "alice".to_string(), text: format!("note for sheet {}", k) }));
        }
    }
    for i in 0..n {
        let tag = format!("t{}", i);
        match wl.usize(12) {
            0..=5 => {
                let mut op = world::gen_cell_op(wl, &cfg, &tag);
                // special characters in targets / names
                if let Op::Hyperlink { url, location, .. } = &mut op {
                    match wl.usize(5) {
                        0 => {
                            *location = true;
                            *url = format!("Sheet1!A{}", 1 + wl.below(20));
                        }
                        1 if alpha == 1 => *url = format!("https://example.com/?a={}&b=<{}>", wl.below(9), wl.below(9)),
                        2 if alpha == 3 => *url = format!("https://example.com/é/{}", wl.below(99)),
                        _ => {}
                    }
                }
                steps.push(Step::O(op));
            }
            // control characters (alphabet 4) are generated for cell and comment text only: that is where
            // ST_Xstring escaping is defined; attribute-valued texts and sheet names never carry them
            6..=9 => steps.push(Step::A(annot::gen_aop(wl, sheets, alpha % 4, &tag, &aw))),
            10 if wl.chance(1, 3) => {
                // a sheet-scoped name may designate cells of another sheet, and the same name may exist once per scope
                let sheet = wl.usize(sheets);
                let name = if wl.chance(1, 3) && local_shared.insert(sheet) { "Rate".to_string() } else { format!("ln_{}", i) };
                let address = if wl.chance(1, 2) { format!("@{}!$C${}", wl.usize(sheets), 1 + wl.below(9)) } else { format!("$C${}", 1 + wl.below(9)) };
                steps.push(Step::O(Op::LocalName { sheet, name, address }));
            }
            10 => {
                let s = match wl.usize(4) {
                    0 => Op::SetActive { sheet: wl.usize(sheets) },
                    1 => Op::SetState { sheet: 1 + wl.usize(sheets.max(2) - 1), state: ["hidden", "veryHidden", "visible"][wl.usize(3)].to_string() },
                    2 if wl.chance(1, 3) => Op::RenameSheet {
                        sheet: wl.usize(sheets),
                        name: ["O'Brien", "R&D <x>", "a \"q\" b", "Überblick 日本", "exactly thirty-one characters!!", "Sheet 1", "1st"][wl.usize(7)].to_string(),
                    },
                    2 => Op::RenameSheet { sheet: wl.usize(sheets), name: format!("R{} {}", i, world::gen_text(wl, if alpha == 1 || alpha >= 4 { 3 } else { alpha }, 2).replace(['/', '\\', '?', '*', '[', ']', ':', '\n', '\t', '\r'], "_")) },
                    _ => Op::NewSheet { name: format!("N{}", i) },
                };
                steps.push(Step::O(s));
            }
            _ => {
                if wl.chance(1, 8) {
                    steps.push(Step::O(Op::ClearComments { sheet: wl.usize(sheets) }));
                } else if wl.chance(1, 8) {
                    steps.push(Step::O(Op::SetMacros { on: wl.chance(2, 3) }));
                } else if structural && wl.chance(1, if grid_heavy { 2 } else { 5 }) {
                    // rows and columns inserted or removed in the middle of the history: what is saved is whatever
                    // the model holds afterwards
                    let sheet = wl.usize(sheets);
                    // (removals are left to C12: what a reference into a removed band becomes is C08's matter)
                    // rows and columns of the coordinate pool, so that an insertion lands exactly on, before or
                    // behind the last used one
                    let row = [1u32, 3, 4, 10, 12, 13, 2, 11][wl.usize(8)];
                    let col = [1u32, 2, 3, 26, 27, 28][wl.usize(6)];
                    let k = 1 + wl.below(2) as u32;
                    steps.push(Step::O(match wl.usize(3) {
                        0 | 1 => Op::SheetInsertRow { sheet, row, n: k },
                        _ => Op::SheetInsertCol { sheet, col, n: 1 },
                    }));
                    if wl.chance(2, 3) {
                        // touch the inserted (blank) row or the row that was moved
                        let r2 = if wl.chance(1, 2) { row } else { row + k };
                        let c2 = ["A", "B", "C", "Z", "AA"][wl.usize(5)];
                        steps.push(Step::O(Op::SetText { sheet, cell: format!("{}{}", c2, r2), v: format!("{}:touched", tag) }));
                    }
                } else if grid_heavy && wl.chance(1, 6) {
                    // the same characters as rich and as plain text with one text cell between them in the row
                    let sheet = wl.usize(sheets);
                    let row = 1 + wl.below(12) as u32;
                    let col = 1 + wl.below(4) as u32;
                    let text = format!("{}:{}tw", tag, world::gen_text(wl, alpha, 2));
                    steps.push(Step::O(Op::Twin { sheet, cell: format!("{}{}", world::col_letters(col), row), other_sheet: sheet, other_cell: format!("{}{}", world::col_letters(col + 2), row), text }));
                    steps.push(Step::O(Op::SetText { sheet, cell: format!("{}{}", world::col_letters(col + 1), row), v: format!("{}:sep", tag) }));
                } else if wl.chance(1, 3) {
                    steps.push(Step::O(Op::RemoveSheet { sheet: wl.usize(sheets), by_name: wl.chance(1, 2) }));
                } else {
                    steps.push(Step::O(world::gen_cell_op(wl, &cfg, &tag)));
                }
            }
        }
    }
    steps
}

pub fn cases(run_seed: u64, tier: &str, _scratch: &str) -> Vec<Value> {
    let mut sw = Rng::stream(run_seed, "swarm");
    let mut wl = Rng::stream(run_seed, "workload");
    let mut hs = Rng::stream(run_seed, "hashseed");
    let sheets = 1 + sw.usize(4);
    let n = 2 + wl.usize(if sw.chance(1, 4) { 60 } else { 20 });
    let steps = gen_steps(&mut sw, &mut wl, sheets, n);
    let nseeds = if tier == "thorough" { 8 } else { 3 };
    let mut out = Vec::new();
    let mut c = new_case("C06", run_seed);
    c["sheets"] = json!(sheets);
    c["steps"] = serde_json::to_value(&steps).unwrap();
    c["light"] = json!(sw.chance(1, 3));
    c["chunk"] = json!([0u64, 1, 13, 4096][sw.usize(4)]);
    c["hash_seed"] = hex64(hs.next_u64());
    c["extra_hash_seeds"] = json!((0..nseeds).map(|_| hex64(hs.next_u64())).collect::<Vec<_>>());
    out.push(c.clone());
    // the same workload under further primary hash seeds (each compared before/after on its own)
    for i in 0..nseeds {
        let mut c2 = c.clone();
        c2["hash_seed"] = hex64(hs.next_u64());
        c2["extra_hash_seeds"] = json!([]);
        if i == 0 {
            c2["lazy_touch"] = json!(sw.usize(sheets + 1));
        }
        out.push(c2);
    }
    out
}
