//! C02 — written files are valid packages that an independent reader decodes to the model.
//! Validity depends on simulator-owned inputs in three places: pairing of r:ids between two writer
//! passes (hash seed), part-name allocation when raw and generated parts meet (order of lazy
//! materialisations), index-inside-table (shared with C16). The quantifier over workbooks is sampled.
//! Oracle: a Python validator/decoder (zipfile + expat; /verif/py/xlsx_validate.py) that shares no code
//! with the library or with the Rust mini-decoder, driven as a per-thread server process.

use crate::c06;
use crate::c11;
use crate::engine::*;
use crate::rng::Rng;
use crate::world;
use serde_json::{json, Value};
use std::collections::BTreeMap;
use std::io::{BufRead, BufReader, Write};
use std::process::{Child, ChildStdin, ChildStdout, Command, Stdio};
use umya_spreadsheet as umya;

struct PyServer {
    child: Child,
    stdin: ChildStdin,
    stdout: BufReader<ChildStdout>,
}


pub fn validator_path() -> String {
    std::env::var("USIM_VALIDATOR").unwrap_or_else(|_| "/verif/py/xlsx_validate.py".to_string())
}

/// Ask the Python validator (one server process per worker thread) about a file.
pub fn py_validate(path: &str) -> Result<Value, String> {
    // the server process belongs to the *worker* thread; executions run on short-lived threads, so the
    // handle lives in a process-wide pool keyed by nothing: take one, use it, put it back
    let mut srv = POOL.lock().unwrap().pop();
    if srv.is_none() {
        let mut child = Command::new("python3")
            .arg(validator_path())
            .arg("--server")
            .stdin(Stdio::piped())
            .stdout(Stdio::piped())
            .stderr(Stdio::null())
            .spawn()
            .map_err(|e| format!("cannot start python validator: {}", e))?;
        let stdin = child.stdin.take().unwrap();
        let stdout = BufReader::new(child.stdout.take().unwrap());
        srv = Some(PyServer { child, stdin, stdout });
    }
    let mut s = srv.unwrap();
    let r = (|| -> Result<Value, String> {
        writeln!(s.stdin, "{}", path).map_err(|e| e.to_string())?;
        s.stdin.flush().map_err(|e| e.to_string())?;
        let mut line = String::new();
        s.stdout.read_line(&mut line).map_err(|e| e.to_string())?;
        if line.is_empty() {
            return Err("python validator closed its pipe".into());
        }
        serde_json::from_str(&line).map_err(|e| format!("validator answer is not JSON: {}", e))
    })();
    match &r {
        Ok(_) => POOL.lock().unwrap().push(s),
        Err(_) => {
            let _ = s.child.kill();
        }
    }
    r
}

static POOL: std::sync::Mutex<Vec<PyServer>> = std::sync::Mutex::new(Vec::new());

/// what the model holds, through public getters, in the validator's vocabulary
pub fn expected(book: &umya::Spreadsheet) -> Value {
    let mut sheets = Vec::new();
    for ws in book.get_sheet_collection_no_check() {
        let mut cells: BTreeMap<String, Value> = BTreeMap::new();
        let mut links: BTreeMap<String, Value> = BTreeMap::new();
        for c in ws.get_cell_collection() {
            let coord = c.get_coordinate().to_string().replace('$', "");
            if let Some(h) = c.get_hyperlink() {
                links.insert(coord.clone(), json!([h.get_url(), h.get_location()]));
            }
            let v = c.get_value().to_string();
            let f = c.get_formula().to_string();
            // a blank cell carries nothing; a text cell holding "" is a value like any other
            if v.is_empty() && f.is_empty() && c.get_data_type() != "s" {
                continue;
            }
            let kind = match c.get_data_type() {
                "s" => "text",
                "n" => "number",
                "b" => "bool",
                "e" => "error",
                _ => "other",
            };
            cells.insert(coord, json!({"k": kind, "v": v, "f": if f.is_empty() { Value::Null } else { json!(f) }}));
        }
        let mut merges: Vec<String> = ws.get_merge_cells().iter().map(|r| r.get_range()).collect();
        merges.sort();
        sheets.push(json!({"name": ws.get_name(), "cells": cells, "merges": merges, "hyperlinks": links}));
    }
    let mut dn: Vec<(String, String, String)> = Vec::new();
    for d in book.get_defined_names() {
        dn.push((d.get_name().to_string(), String::new(), d.get_address()));
    }
    for ws in book.get_sheet_collection_no_check() {
        for d in ws.get_defined_names() {
            dn.push((d.get_name().to_string(), if d.has_local_sheet_id() { ws.get_name().to_string() } else { String::new() }, d.get_address()));
        }
    }
    dn.sort();
    json!({"sheets": sheets, "defined_names": dn})
}

/// `'Sheet 1'!$A$1` and `Sheet1!$A$1` style qualifiers: quoting a sheet name is representation
pub fn norm_ref(s: &str) -> String {
    let cs: Vec<char> = s.chars().collect();
    let mut out = String::new();
    let mut i = 0;
    while i < cs.len() {
        if cs[i] == '\'' {
            // find the closing quote ('' is an escaped quote)
            let mut j = i + 1;
            let mut name = String::new();
            let mut closed = false;
            while j < cs.len() {
                if cs[j] == '\'' {
                    if j + 1 < cs.len() && cs[j + 1] == '\'' {
                        name.push('\'');
                        j += 2;
                        continue;
                    }
                    closed = true;
                    break;
                }
                name.push(cs[j]);
                j += 1;
            }
            if closed && j + 1 < cs.len() && cs[j + 1] == '!' {
                out.push_str(&name);
                i = j + 1;
                continue;
            }
        }
        out.push(cs[i]);
        i += 1;
    }
    out
}

fn num_eq(a: &str, b: &str) -> bool {
    match (a.trim().parse::<f64>(), b.trim().parse::<f64>()) {
        (Ok(x), Ok(y)) => x == y || (x.is_nan() && y.is_nan()),
        _ => a == b,
    }
}

/// compare the validator's decoding with the model; returns the first difference
pub fn compare(exp: &Value, got: &Value, shared_formula_ok: bool) -> Option<(String, String)> {
    let es = exp["sheets"].as_array().cloned().unwrap_or_default();
    let gs = got["sheets"].as_array().cloned().unwrap_or_default();
    let en: Vec<&Value> = es.iter().map(|s| &s["name"]).collect();
    let gn: Vec<&Value> = gs.iter().map(|s| &s["name"]).collect();
    if en != gn {
        return Some(("sheet_list".into(), format!("model {:?}, file {:?}", en, gn)));
    }
    for (i, (e, g)) in es.iter().zip(gs.iter()).enumerate() {
        let ec = e["cells"].as_object().cloned().unwrap_or_default();
        let gc = g["cells"].as_object().cloned().unwrap_or_default();
        for (k, c) in &ec {
            match gc.get(k) {
                None => return Some(("cells".into(), format!("sheet {} cell {} ({}) is in the model but not in the file", i, k, c))),
                Some(d) => {
                    let ek = c["k"].as_str().unwrap_or("");
                    let dk = d["k"].as_str().unwrap_or("");
                    let ev = c["v"].as_str().unwrap_or("");
                    let dv = d["v"].as_str().unwrap_or("");
                    let same_v = match ek {
                        "number" => num_eq(ev, dv),
                        "bool" => ev == dv || (ev == "TRUE" && dv == "1") || (ev == "FALSE" && dv == "0"),
                        _ => ev == dv,
                    };
                    if ek != "other" && (ek != dk || !same_v) {
                        return Some(("cells".into(), format!("sheet {} cell {}: model has {} {:?}, file decodes to {} {:?}", i, k, ek, ev, dk, dv)));
                    }
                    let ef = c["f"].as_str().unwrap_or("");
                    let df = d["f"].as_str().unwrap_or("");
                    if ef != df && !(shared_formula_ok && (df.is_empty() || ef.is_empty())) {
                        return Some(("formulas".into(), format!("sheet {} cell {}: model formula {:?}, file {:?}", i, k, ef, df)));
                    }
                }
            }
        }
        for (k, d) in &gc {
            if !ec.contains_key(k) {
                return Some(("cells".into(), format!("sheet {} cell {} ({}) is in the file but not in the model", i, k, d)));
            }
        }
        let mut gm: Vec<String> = g["merges"].as_array().cloned().unwrap_or_default().iter().map(|x| x.as_str().unwrap_or("").to_string()).collect();
        gm.sort();
        let mut em: Vec<String> = e["merges"].as_array().cloned().unwrap_or_default().iter().map(|x| x.as_str().unwrap_or("").to_string()).collect();
        em.sort();
        if gm != em {
            return Some(("merges".into(), format!("sheet {}: model {:?}, file {:?}", i, em, gm)));
        }
        if e["hyperlinks"] != g["hyperlinks"] {
            return Some(("hyperlinks".into(), format!("sheet {}: model {}, file {}", i, e["hyperlinks"], g["hyperlinks"])));
        }
    }
    let norm_names = |v: &Value| -> Vec<(String, String, String)> {
        let mut out: Vec<(String, String, String)> = v
            .as_array()
            .cloned()
            .unwrap_or_default()
            .iter()
            .map(|d| (d[0].as_str().unwrap_or("").to_string(), d[1].as_str().unwrap_or("").to_string(), norm_ref(d[2].as_str().unwrap_or(""))))
            .collect();
        out.sort();
        out
    };
    if norm_names(&exp["defined_names"]) != norm_names(&got["defined_names"]) {
        return Some(("defined_names".into(), format!("model {}, file {}", exp["defined_names"], got["defined_names"])));
    }
    None
}

static FILE_COUNTER: std::sync::atomic::AtomicU64 = std::sync::atomic::AtomicU64::new(0);

fn judge(out: &mut Outcome, book: &umya::Spreadsheet, bytes: &[u8], scratch: &str, what: &str, has_shared_formulas: bool) {
    let exp = match guarded(|| expected(book)) {
        Ok(e) => e,
        Err(_) => {
            out.probe("getters_panic");
            return;
        }
    };
    let n = FILE_COUNTER.fetch_add(1, std::sync::atomic::Ordering::Relaxed);
    let path = format!("{}/c02-{}-{}.xlsx", scratch, std::process::id(), n);
    if std::fs::write(&path, bytes).is_err() {
        out.harness_error = Some("cannot write scratch file".into());
        return;
    }
    let res = py_validate(&path);
    let _ = std::fs::remove_file(&path);
    let got = match res {
        Ok(v) => v,
        Err(e) => {
            out.harness_error = Some(e);
            return;
        }
    };
    if got["crash"] == true {
        out.harness_error = Some(format!("validator crashed: {}", got["fatal"]));
        return;
    }
    out.step("files_validated", 1);
    if let Some(f) = got["fatal"].as_str() {
        out.violate(Verdict::new("C02", "C02:invalid-package", &[("source", what), ("rule", "package")], format!("{}: {}", what, f)));
        return;
    }
    if let Some(e) = got["errors"].as_array().and_then(|a| a.first()) {
        let msg = e.as_str().unwrap_or("").to_string();
        let rule = rule_of(&msg);
        out.violate(Verdict::new("C02", "C02:invalid-package", &[("source", what), ("rule", rule)], format!("{}: {} ({} problems)", what, msg, got["errors"].as_array().unwrap().len())));
    }
    if let Some((kind, detail)) = compare(&exp, &got, has_shared_formulas) {
        out.violate(Verdict::new("C02", "C02:decodes-differently", &[("source", what), ("kind", &kind)], format!("{}: {}", what, detail)));
    }
}

fn validate_bytes(bytes: &[u8], scratch: &str) -> Result<Value, String> {
    let n = FILE_COUNTER.fetch_add(1, std::sync::atomic::Ordering::Relaxed);
    let path = format!("{}/c02-{}-{}.xlsx", scratch, std::process::id(), n);
    std::fs::write(&path, bytes).map_err(|e| e.to_string())?;
    let r = py_validate(&path);
    let _ = std::fs::remove_file(&path);
    r
}

fn judge_against_input(out: &mut Outcome, input: &[u8], output: &[u8], scratch: &str, what: &str) {
    let exp = match validate_bytes(input, scratch) {
        Ok(v) => v,
        Err(e) => {
            out.harness_error = Some(e);
            return;
        }
    };
    let got = match validate_bytes(output, scratch) {
        Ok(v) => v,
        Err(e) => {
            out.harness_error = Some(e);
            return;
        }
    };
    if exp["crash"] == true || got["crash"] == true {
        out.harness_error = Some(format!("validator crashed: {} {}", exp["fatal"], got["fatal"]));
        return;
    }
    if exp["fatal"].is_string() {
        out.probe("input_file_not_valid_for_validator");
        return;
    }
    out.step("files_validated", 1);
    if let Some(f) = got["fatal"].as_str() {
        out.violate(Verdict::new("C02", "C02:invalid-package", &[("source", what), ("rule", "package")], format!("{}: {}", what, f)));
        return;
    }
    // problems the input file does not have
    let in_errs: Vec<String> = exp["errors"].as_array().cloned().unwrap_or_default().iter().map(|e| rule_of(e.as_str().unwrap_or("")).to_string()).collect();
    for e in got["errors"].as_array().cloned().unwrap_or_default() {
        let msg = e.as_str().unwrap_or("").to_string();
        let rule = rule_of(&msg);
        if !in_errs.contains(&rule.to_string()) {
            out.violate(Verdict::new("C02", "C02:invalid-package", &[("source", what), ("rule", rule)], format!("{}: {}", what, msg)));
            break;
        }
    }
    // decoded content: sheet list, cells, merges, hyperlinks, defined names
    let mut e2 = exp.clone();
    let mut g2 = got.clone();
    // formulas: compared where both sides carry text (shared-formula dependents carry none)
    for v in [&mut e2, &mut g2] {
        if let Some(dn) = v["defined_names"].as_array_mut() {
            dn.sort_by_key(|x| x.to_string());
        }
    }
    if let Some((kind, detail)) = compare(&e2, &g2, true) {
        out.violate(Verdict::new("C02", "C02:decodes-differently", &[("source", what), ("kind", &kind)], format!("{} (input file vs re-saved file, both through the independent reader): {}", what, detail)));
    }
}

fn rule_of(msg: &str) -> &'static str {
    if msg.contains("not well-formed") {
        "well-formed"
    } else if msg.contains("content type") {
        "content-type"
    } else if msg.contains("relationship") || msg.contains("r:id") {
        "relationship"
    } else if msg.contains("duplicate") || msg.contains("share part") {
        "unique"
    } else if msg.contains("order") || msg.contains("occurs twice") || msg.contains("unknown worksheet child") {
        "child-order"
    } else if msg.contains("ascending") || msg.contains("out of range") || msg.contains("bad cell") {
        "rows-cells"
    } else if msg.contains("outside") {
        "index"
    } else {
        "other"
    }
}

pub fn execute(case: &Value, scratch: &str) -> Outcome {
    let mut out = Outcome::default();
    let light = case["light"].as_bool().unwrap_or(false);
    match case["source"]["kind"].as_str().unwrap_or("generated") {
        "generated" => {
            c06::count_ops(case, &mut out);
            let book = match guarded(|| c06::build(case)) {
                Ok(b) => b,
                Err(_) => {
                    out.probe("build_panics");
                    return out;
                }
            };
            match guarded(|| world::save_mem(&book, light)) {
                Ok(Ok(bytes)) => judge(&mut out, &book, &bytes, scratch, "generated", false),
                Ok(Err(e)) => out.violate(Verdict::new("C02", "C02:save-fails", &[("source", "generated")], e)),
                Err(p) => out.violate(Verdict::new("C02", "C02:save-fails", &[("source", "generated")], format!("save panicked: {}", p))),
            }
        }
        _ => {
            // corpus file: load (eagerly, or lazily with a seeded subset materialised), optionally drop the
            // macro payload, re-save
            let bytes = match c11::source_bytes(case) {
                Ok(b) => b,
                Err(e) => {
                    out.harness_error = Some(e);
                    return out;
                }
            };
            let lazy = case["lazy"].as_bool().unwrap_or(false);
            let mut book = match guarded(|| world::load_mem(&bytes, !lazy)) {
                Ok(Ok(b)) => b,
                _ => {
                    out.probe("corpus_file_unreadable");
                    return out;
                }
            };
            let mut reference = match guarded(|| world::load_mem(&bytes, true)) {
                Ok(Ok(b)) => b,
                _ => return out,
            };
            if lazy {
                let n = book.get_sheet_count();
                for i in case["materialise"].as_array().cloned().unwrap_or_default() {
                    let i = i.as_u64().unwrap_or(0) as usize;
                    if n > 0 {
                        book.read_sheet(i % n);
                    }
                }
            }
            if case["drop_macros"].as_bool().unwrap_or(false) {
                book.remove_macros_code();
                reference.remove_macros_code();
            }
            if case["add_macros"].as_bool().unwrap_or(false) {
                // a macro payload given to a workbook that was loaded without one
                book.set_macros_code(vec![0xD0u8, 0xCF, 0x11, 0xE0, 0xA1, 0xB1, 0x1A, 0xE1, 9, 8, 7]);
            }
            let what = if lazy { "corpus-lazy" } else { "corpus" };
            match guarded(|| world::save_mem(&book, light)) {
                Ok(Ok(out_bytes)) => {
                    // corpus: what has to survive is what an independent reader sees in the *input* file
                    // (so that a disagreement between the library's reader and the standard — C03's
                    // subject — is not charged to the writer), restricted to what the library models
                    judge_against_input(&mut out, &bytes, &out_bytes, scratch, what);
                    let _ = &reference;
                }
                Ok(Err(e)) => out.violate(Verdict::new("C02", "C02:save-fails", &[("source", what)], e)),
                Err(p) => out.violate(Verdict::new("C02", "C02:save-fails", &[("source", what)], format!("save panicked: {}", p.chars().take(200).collect::<String>()))),
            }
        }
    }
    out.nontrivial = out.steps.get("files_validated").cloned().unwrap_or(0) > 0;
    out.signature = format!("{:x}|{}", crate::rng::fnv(&format!("{}{}{}{}", case["source"], case["steps"], case["materialise"], case["light"])), case["hash_seed"]);
    out
}

pub fn cases(run_seed: u64, tier: &str, _scratch: &str) -> Vec<Value> {
    let mut sw = Rng::stream(run_seed, "swarm");
    let mut wl = Rng::stream(run_seed, "workload");
    let mut hs = Rng::stream(run_seed, "hashseed");
    let mut out = Vec::new();
    let picked = if sw.chance(1, 3) { c11::pick_corpus_file(&mut sw, tier) } else { None };
    if let Some(f) = picked {
        // corpus: every flavour of one file
        for light in [false, true] {
            for lazy in [false, true] {
                let mut c = new_case("C02", run_seed);
                c["source"] = json!({"kind": "corpus", "file": f});
                c["light"] = json!(light);
                c["lazy"] = json!(lazy);
                c["materialise"] = json!((0..sw.usize(4)).map(|_| sw.below(8)).collect::<Vec<_>>());
                c["drop_macros"] = json!(f.ends_with(".xlsm") && sw.chance(1, 2));
                c["add_macros"] = json!(!f.ends_with(".xlsm") && sw.chance(1, 3));
                c["hash_seed"] = hex64(hs.next_u64());
                out.push(c);
            }
        }
        return out;
    }
    let sheets = 1 + sw.usize(4);
    let n = 2 + wl.usize(if sw.chance(1, 4) { 60 } else { 20 });
    let steps = c06::gen_steps(&mut sw, &mut wl, sheets, n);
    let nseeds = if tier == "thorough" { 6 } else { 3 };
    for k in 0..nseeds {
        let mut c = new_case("C02", run_seed);
        c["source"] = json!({"kind": "generated"});
        c["sheets"] = json!(sheets);
        c["steps"] = serde_json::to_value(&steps).unwrap();
        c["light"] = json!(k % 2 == 1);
        c["hash_seed"] = hex64(hs.next_u64());
        out.push(c);
    }
    out
}
