//! C13 — saving to a path is all-or-nothing under I/O failure; a failing caller-supplied sink yields
//! an error, not a panic. Real code: writer::xlsx::{write, write_light, write_writer(_light),
//! write_with_password(_light), set_password}, writer::csv::{write, write_writer}, std BufWriter/File,
//! zip, cfb, kernel VFS. Simulated: every libc file call outcome (S3), the sink (S2), entropy (S4),
//! hash keys (S5). Crash points: the destination is inspected before and after every intercepted call.

use crate::decode;
use crate::engine::*;
use crate::rng::Rng;
use crate::shim::{self, Fault, ShimState};
use crate::world::{self, Op};
use serde_json::{json, Value};
use std::io::{Seek, SeekFrom, Write};
use std::sync::atomic::{AtomicU64, Ordering};
use umya_spreadsheet as umya;

pub const PATH_APIS: &[&str] = &["write", "write_light", "csv", "write_pw", "write_pw_light", "set_password"];
pub const SINK_APIS: &[&str] = &["sink_xlsx", "sink_light", "sink_csv"];

fn is_encrypted(api: &str) -> bool {
    matches!(api, "write_pw" | "write_pw_light" | "set_password")
}
fn is_csv(api: &str) -> bool {
    matches!(api, "csv" | "sink_csv")
}
fn is_light(api: &str) -> bool {
    matches!(api, "write_light" | "write_pw_light" | "sink_light")
}

// ------------------------------------------------------------------------------------------------
// workbook generation
// ------------------------------------------------------------------------------------------------

fn gen_ops(rng: &mut Rng, size_class: &str, csv: bool) -> Vec<Op> {
    let mut ops = Vec::new();
    let (ncells, strlen) = match size_class {
        "tiny" => (rng.range(0, 3), 6),
        "small" => (rng.range(3, 30), 10),
        _ => (rng.range(220, 420), 48),
    };
    let sheets = if csv { 1 } else { 1 + rng.usize(2) };
    for i in 1..sheets {
        ops.push(Op::NewSheet { name: format!("S{}", i + 1) });
    }
    for i in 0..ncells {
        let col = 1 + (i % 8) as u32;
        let row = 1 + (i / 8) as u32;
        let cell = format!("{}{}", (b'A' + (col - 1) as u8) as char, row);
        let sheet = rng.usize(sheets);
        let k = rng.usize(10);
        if k < 7 {
            let mut s = String::new();
            while s.len() < strlen {
                s.push_str(&format!("{:x}", rng.next_u64()));
            }
            s.truncate(strlen);
            let alpha = rng.usize(4);
            ops.push(Op::SetText { sheet, cell, v: format!("n{}:{}{}", i, world::gen_text(rng, alpha, 2), s) });
        } else if k < 9 {
            ops.push(Op::SetNum { sheet, cell, v: (rng.below(1_000_000) as f64) / 100.0 });
        } else {
            ops.push(Op::SetBool { sheet, cell, v: rng.chance(1, 2) });
        }
    }
    if !csv && rng.chance(1, 3) {
        ops.push(Op::Merge { sheet: 0, range: "A40:B41".into() });
        ops.push(Op::Comment { sheet: 0, cell: "C3".into(), author: "a".into(), text: "note".into() });
    }
    ops
}

fn csv_option(case: &Value) -> umya::structs::CsvWriterOption {
    let mut o = umya::structs::CsvWriterOption::default();
    let enc = case["csv"]["enc"].as_u64().unwrap_or(0);
    use umya::structs::CsvEncodeValues as E;
    o.set_csv_encode_value(match enc {
        1 => E::ShiftJis,
        2 => E::Koi8u,
        3 => E::Koi8r,
        4 => E::Iso88598i,
        5 => E::Gbk,
        6 => E::EucKr,
        7 => E::Big5,
        8 => E::Utf16Le,
        9 => E::Utf16Be,
        _ => E::Utf8,
    });
    o.set_do_trim(case["csv"]["trim"].as_bool().unwrap_or(false));
    o.set_wrap_with_char(case["csv"]["wrap"].as_str().unwrap_or(""));
    o
}

fn build_book(case: &Value) -> umya::Spreadsheet {
    let ops: Vec<Op> = serde_json::from_value(case["ops"].clone()).unwrap_or_default();
    let mut book = umya::new_file();
    world::apply_all(&mut book, &ops);
    book
}

// ------------------------------------------------------------------------------------------------
// S2 sink
// ------------------------------------------------------------------------------------------------

pub struct SimSink {
    pub inner: std::io::Cursor<Vec<u8>>,
    pub chunk: usize,
    pub fail_at: Option<u64>,
    pub mode: String,
    pub burst: u64,
    pub calls: u64,
    pub flushes: u64,
    pub hard_fired: bool,
    pub soft_fired: u64,
}

impl SimSink {
    fn from_case(case: &Value) -> SimSink {
        let p = &case["sink"];
        SimSink {
            inner: std::io::Cursor::new(Vec::new()),
            chunk: p["chunk"].as_u64().unwrap_or(0) as usize,
            fail_at: p["fail_at"].as_u64(),
            mode: p["mode"].as_str().unwrap_or("none").to_string(),
            burst: p["burst"].as_u64().unwrap_or(1),
            calls: 0,
            flushes: 0,
            hard_fired: false,
            soft_fired: 0,
        }
    }
}

impl Write for SimSink {
    fn write(&mut self, buf: &[u8]) -> std::io::Result<usize> {
        let n = self.calls;
        self.calls += 1;
        let mut take = if self.chunk > 0 { buf.len().min(self.chunk) } else { buf.len() };
        if let Some(k) = self.fail_at {
            match self.mode.as_str() {
                "error" if n >= k => {
                    self.hard_fired = true;
                    return Err(std::io::Error::from_raw_os_error(libc::ENOSPC));
                }
                "epipe" if n >= k => {
                    self.hard_fired = true;
                    return Err(std::io::Error::from_raw_os_error(libc::EPIPE));
                }
                "zero" if n >= k => {
                    self.hard_fired = true;
                    return Ok(0);
                }
                "wouldblock" if n >= k => {
                    self.hard_fired = true;
                    return Err(std::io::Error::from(std::io::ErrorKind::WouldBlock));
                }
                "short_then_error" => {
                    if n == k && take > 1 {
                        take = (take / 2).max(1);
                        self.soft_fired += 1;
                    } else if n > k {
                        self.hard_fired = true;
                        return Err(std::io::Error::from_raw_os_error(libc::EIO));
                    }
                }
                "interrupted" if n >= k && n < k + self.burst => {
                    self.soft_fired += 1;
                    return Err(std::io::Error::from(std::io::ErrorKind::Interrupted));
                }
                _ => {}
            }
        }
        self.inner.write(&buf[..take])
    }
    fn flush(&mut self) -> std::io::Result<()> {
        self.flushes += 1;
        if self.mode == "flush_error" {
            self.hard_fired = true;
            return Err(std::io::Error::from_raw_os_error(libc::EIO));
        }
        Ok(())
    }
}

impl Seek for SimSink {
    fn seek(&mut self, pos: SeekFrom) -> std::io::Result<u64> {
        self.inner.seek(pos)
    }
}

// ------------------------------------------------------------------------------------------------
// execution
// ------------------------------------------------------------------------------------------------

static DIR_COUNTER: AtomicU64 = AtomicU64::new(0);

struct Reference {
    bytes: Vec<u8>,
    content: Option<Value>,
}

fn make_reference(api: &str, book: &umya::Spreadsheet, case: &Value) -> Result<Reference, String> {
    if is_csv(api) {
        let mut c = std::io::Cursor::new(Vec::new());
        guarded(|| umya::writer::csv::write_writer(book, &mut c, &csv_option(case)))
            .map_err(|e| format!("reference csv panicked: {}", e))?
            .map_err(|e| format!("reference csv failed: {:?}", e))?;
        Ok(Reference { bytes: c.into_inner(), content: None })
    } else {
        let bytes = guarded(|| world::save_mem(book, is_light(api))).map_err(|e| format!("reference save panicked: {}", e))??;
        let d = decode::decode(&bytes).map_err(|e| format!("reference save does not decode: {}", e))?;
        Ok(Reference { bytes, content: Some(d.content()) })
    }
}

/// "complete NEW" decided by content, not by byte equality with the reference
fn complete_new(api: &str, bytes: &[u8], reference: &Reference, password: &str) -> Result<(), String> {
    if is_csv(api) {
        return if bytes == &reference.bytes[..] { Ok(()) } else { Err(format!("csv bytes differ ({} vs {})", bytes.len(), reference.bytes.len())) };
    }
    if is_encrypted(api) {
        let dec = crate::crypto::decrypt(bytes, password).map_err(|e| format!("does not decrypt: {:?}", e))?;
        if !dec.hmac_ok {
            return Err("HMAC does not verify".into());
        }
        if dec.declared_len as usize != dec.package.len() {
            return Err("declared length != package length".into());
        }
        if api == "set_password" {
            return if dec.package == reference.bytes { Ok(()) } else { Err("decrypted package != input file".into()) };
        }
        let d = decode::decode(&dec.package).map_err(|e| format!("decrypted package does not decode: {}", e))?;
        return if Some(d.content()) == reference.content { Ok(()) } else { Err("decrypted content differs from workbook".into()) };
    }
    let d = decode::decode(bytes).map_err(|e| format!("does not decode: {}", e))?;
    if Some(d.content()) == reference.content {
        Ok(())
    } else {
        Err("decoded content differs from workbook".into())
    }
}

fn first_fired(fired: &std::collections::BTreeMap<String, u64>, plan: &[Fault]) -> String {
    let soft = |f: &Fault| matches!(f, Fault::Eintr { .. } | Fault::Short { .. });
    let ordered: Vec<&Fault> = plan.iter().filter(|f| !soft(f)).chain(plan.iter().filter(|f| soft(f))).collect();
    for f in ordered {
        if fired.contains_key(&f.kind_name()) {
            let k = f.kind_name();
            // drop the errno: the class of site is what identifies a finding
            let mut parts: Vec<&str> = k.split(':').collect();
            if parts.len() > 1 && (parts[0] == "capacity" || parts[0] == "file_limit") {
                parts.truncate(1);
            } else if parts.len() > 2 {
                parts.truncate(2);
            }
            return parts.join(":");
        }
    }
    "none".to_string()
}

pub fn execute(case: &Value, scratch: &str) -> Outcome {
    let api = case["api"].as_str().unwrap_or("write").to_string();
    if SINK_APIS.contains(&api.as_str()) {
        return execute_sink(case, &api);
    }
    if case["real"].is_object() {
        return execute_real(case, scratch, &api);
    }
    let mut out = Outcome::default();
    let book = build_book(case);
    let password = case["password"].as_str().unwrap_or("pw").to_string();
    let entropy_seed = get_u64(case, "entropy_seed");
    let reference = match make_reference(&api, &book, case) {
        Ok(r) => r,
        Err(e) => {
            out.harness_error = Some(e);
            return out;
        }
    };
    let plan: Vec<Fault> = serde_json::from_value(case["faults"].clone()).unwrap_or_default();
    let dest_existing = case["dest"].as_str().unwrap_or("existing") == "existing";

    let n = DIR_COUNTER.fetch_add(1, Ordering::Relaxed);
    let root = format!("{}/c13-{}-{}", scratch, std::process::id(), n);
    let _ = std::fs::remove_dir_all(&root);
    if let Err(e) = std::fs::create_dir_all(&root) {
        out.harness_error = Some(format!("mkdir {}: {}", root, e));
        return out;
    }
    let ext = if is_csv(&api) { "csv" } else { "xlsx" };
    // the destination's name: ordinary, ending in ".tmp", with several dots, without an extension
    let dest_file = match case["dest_name"].as_str().unwrap_or("plain") {
        "ends_tmp" => format!("out.{}.tmp", ext),
        "only_tmp" => "data.tmp".to_string(),
        "dots" => format!("two.dots.v1.{}", ext),
        "noext" => "noext".to_string(),
        _ => format!("out.{}", ext),
    };
    let dest = format!("{}/{}", root, dest_file);
    let old: Vec<u8> = if is_csv(&api) { b"old,file\r\n1,2\r\n".to_vec() } else { old_bytes() };
    if dest_existing {
        std::fs::write(&dest, &old).unwrap();
    }
    let mut from = format!("{}/in.xlsx", root);
    let mut old = old;
    if api == "set_password" {
        if case["same_path"].as_bool().unwrap_or(false) {
            // encrypt a file in place: the old content of the destination is the plain package
            from = dest.clone();
            old = reference.bytes.clone();
            std::fs::write(&dest, &old).unwrap();
        } else {
            std::fs::write(&from, &reference.bytes).unwrap();
        }
    }
    let dest_existing = dest_existing || (api == "set_password" && case["same_path"].as_bool().unwrap_or(false));
    let lib_tmp = format!("{}tmp", dest);
    if case["tmp_exists"].as_bool().unwrap_or(false) {
        // a stale temporary sibling from an earlier, interrupted save
        let _ = std::fs::write(&lib_tmp, b"stale temporary file");
    }
    // bystanders: other files of the user in the same directory, with names close to the destination's; a
    // save, failed or not, leaves them alone
    let mut bystanders: Vec<(String, Vec<u8>)> = Vec::new();
    if case["bystanders"].as_bool().unwrap_or(false) {
        let stem_tmp = std::path::Path::new(&dest).with_extension("tmp").to_string_lossy().to_string();
        for (name, content) in [(stem_tmp, b"user file stem.tmp".to_vec()), (format!("{}.bak", dest), b"user backup".to_vec()), (format!("{}bak", dest), b"user backup 2".to_vec()), (format!("{}/other.{}", root, ext), b"another document".to_vec())] {
            if name != dest && name != lib_tmp && name != from {
                let _ = std::fs::write(&name, &content);
                bystanders.push((name, content));
            }
        }
    }

    shim::arm(ShimState::new(&root, &dest, plan.clone()));
    let result = guarded(|| {
        let call = || -> Result<(), String> {
            let p = std::path::Path::new(&dest);
            match api.as_str() {
                "write" => umya::writer::xlsx::write(&book, p).map_err(|e| format!("{:?}", e)),
                "write_light" => umya::writer::xlsx::write_light(&book, p).map_err(|e| format!("{:?}", e)),
                "csv" => umya::writer::csv::write(&book, p, Some(&csv_option(case))).map_err(|e| format!("{:?}", e)),
                "write_pw" => umya::writer::xlsx::write_with_password(&book, p, &password).map_err(|e| format!("{:?}", e)),
                "write_pw_light" => umya::writer::xlsx::write_with_password_light(&book, p, &password).map_err(|e| format!("{:?}", e)),
                "set_password" => umya::writer::xlsx::set_password(std::path::Path::new(&from), p, &password).map_err(|e| format!("{:?}", e)),
                _ => Err("unknown api".into()),
            }
        };
        if is_encrypted(&api) {
            let mut er = Rng::new(entropy_seed);
            umya::verif_hooks::with_entropy(Box::new(move |b: &mut [u8]| er.fill(b)), call)
        } else {
            call()
        }
    });
    let st = match shim::disarm() {
        Some(s) => s,
        None => {
            out.harness_error = Some("shim state lost".into());
            return out;
        }
    };
    if st.overflow {
        out.harness_error = Some("event log overflow".into());
    }

    // classify every distinct destination content seen at a call boundary
    let mut classes: Vec<String> = Vec::new();
    for c in &st.contents {
        let cl = match c {
            None => "absent".to_string(),
            Some(b) if dest_existing && *b == old => "old".to_string(),
            Some(b) => match complete_new(&api, b, &reference, &password) {
                Ok(()) => "new".to_string(),
                Err(e) => format!("partial({} bytes): {}", b.len(), e),
            },
        };
        classes.push(cl);
    }
    let fault = first_fired(&st.fired, &plan);
    let any_fired = !st.fired.is_empty();
    let hard_fired = st.fired.keys().any(|k| !k.starts_with("eintr") && !k.starts_with("short_write") && !k.starts_with("nth:close"));
    let returned = match &result {
        Ok(Ok(())) => "ok".to_string(),
        Ok(Err(e)) => format!("err:{}", e.chars().take(80).collect::<String>()),
        Err(p) => format!("panic:{}", p.chars().take(120).collect::<String>()),
    };
    let final_class = st.timeline.last().map(|t| classes[t.2].clone()).unwrap_or("absent".into());
    let dest_kind = if dest_existing { "existing" } else { "absent" };

    // I3: error, not panic
    if let Err(p) = &result {
        out.violate(Verdict::new("C13", "C13:panic-instead-of-error", &[("api", &api), ("fault", &fault)], format!("{} panicked: {}", api, p)));
    }
    // I2: honest result
    if matches!(result, Ok(Ok(()))) && final_class != "new" {
        out.violate(Verdict::new(
            "C13",
            "C13:ok-but-incomplete",
            &[("api", &api), ("fault", &fault)],
            format!("{} returned Ok but the destination is {}", api, final_class),
        ));
    }
    // I4: fault-free runs succeed
    if !any_fired && !matches!(result, Ok(Ok(()))) && plan.is_empty() {
        out.violate(Verdict::new("C13", "C13:error-without-fault", &[("api", &api)], format!("{} without any fault returned {}", api, returned)));
    }
    // I1: atomic visibility at every crash point
    for (ev, phase, id) in &st.timeline {
        let cl = &classes[*id];
        let allowed = cl == "new" || (dest_existing && cl == "old") || (!dest_existing && cl == "absent");
        if !allowed {
            let kind = if cl == "absent" { "missing" } else { "partial" };
            out.violate(Verdict::new(
                "C13",
                "C13:dest-damaged",
                &[("api", &api), ("dest", dest_kind), ("state", kind)],
                format!(
                    "a kill {} call #{} ({}) leaves the destination {}",
                    if *phase == 0 { "before" } else { "after" },
                    ev,
                    st.events.get(*ev).map(|e| format!("{} {}", e.call, e.target)).unwrap_or("end".into()),
                    cl
                ),
            ));
            break;
        }
    }
    // I5: nothing else in the directory is touched
    for (name, content) in &bystanders {
        let now = std::fs::read(name).ok();
        if now.as_ref() != Some(content) {
            let short = name.rsplit('/').next().unwrap_or("");
            out.violate(Verdict::new(
                "C13",
                "C13:bystander-damaged",
                &[("api", &api), ("dest_name", case["dest_name"].as_str().unwrap_or("plain"))],
                format!("saving to {} {} the unrelated file {} next to it", dest_file, if now.is_none() { "removed" } else { "overwrote" }, short),
            ));
            break;
        }
    }
    // probes
    let by_names: Vec<String> = bystanders.iter().map(|(n, _)| n.rsplit('/').next().unwrap_or("").to_string()).collect();
    let leftovers: Vec<String> = std::fs::read_dir(&root)
        .map(|d| d.filter_map(|e| e.ok()).map(|e| e.file_name().to_string_lossy().to_string()).filter(|n| n != &dest_file && n != "in.xlsx" && !by_names.contains(n)).collect())
        .unwrap_or_default();
    if !leftovers.is_empty() {
        out.probe("temp_left_behind");
    }
    if any_fired && !hard_fired && !matches!(result, Ok(Ok(()))) {
        out.probe("retryable_fault_not_absorbed");
    }
    if hard_fired && matches!(result, Ok(Err(_))) {
        out.probe("hard_fault_reported_as_err");
    }
    if hard_fired && matches!(result, Ok(Ok(()))) {
        out.probe("hard_fault_but_ok");
    }
    if reference.bytes.len() < 8192 {
        out.probe("output_smaller_than_bufwriter");
    } else {
        out.probe("output_larger_than_bufwriter");
    }
    if st.contents.len() > 1 {
        out.probe("dest_changed_during_call");
    }
    out.faults_fired = st.fired.clone();
    out.step("syscalls", st.events.len() as u64);
    out.step("crash_points", st.boundaries);
    out.step("ops", case["ops"].as_array().map(|a| a.len()).unwrap_or(0) as u64);
    out.nontrivial = any_fired && st.boundaries > 0;
    let wl = crate::rng::fnv(&case["ops"].to_string());
    out.signature = format!("{}|{}|{:x}|{}", api, dest_kind, wl, case["faults"]);
    let ev_sample: Vec<Value> = st.events.iter().take(12).map(|e| json!([e.call, e.target, e.len, e.result])).collect();
    let ev_tail: Vec<Value> = st.events.iter().rev().take(6).rev().map(|e| json!([e.call, e.target, e.len, e.result])).collect();
    let mut calls_by_kind = std::collections::BTreeMap::new();
    for e in &st.events {
        *calls_by_kind.entry(e.call.clone()).or_insert(0u64) += 1;
    }
    out.record = json!({
        "returned": returned,
        "events_head": ev_sample,
        "events_tail": ev_tail,
        "n_events": st.events.len(),
        "calls_by_kind": calls_by_kind,
        "dest_timeline": st.timeline.iter().map(|(e, p, id)| json!([e, p, classes[*id]])).collect::<Vec<_>>(),
        "reference_len": reference.bytes.len(),
        "leftovers": leftovers,
    });
    let _ = std::fs::remove_dir_all(&root);
    out
}

fn old_bytes() -> Vec<u8> {
    thread_local! { static OLD: std::cell::RefCell<Option<Vec<u8>>> = const { std::cell::RefCell::new(None) }; }
    OLD.with(|o| {
        let mut o = o.borrow_mut();
        if o.is_none() {
            let mut b = umya::new_file();
            b.get_sheet_mut(&0).unwrap().get_cell_mut("A1").set_value_string("OLD FILE");
            *o = Some(world::save_mem(&b, false).unwrap());
        }
        o.clone().unwrap()
    })
}

fn execute_sink(case: &Value, api: &str) -> Outcome {
    let mut out = Outcome::default();
    let book = build_book(case);
    let reference = match make_reference(api, &book, case) {
        Ok(r) => r,
        Err(e) => {
            out.harness_error = Some(e);
            return out;
        }
    };
    let mut sink = SimSink::from_case(case);
    let result = guarded(|| match api {
        "sink_xlsx" => umya::writer::xlsx::write_writer(&book, &mut sink).map_err(|e| format!("{:?}", e)),
        "sink_light" => umya::writer::xlsx::write_writer_light(&book, &mut sink).map_err(|e| format!("{:?}", e)),
        _ => umya::writer::csv::write_writer(&book, &mut sink, &csv_option(case)).map_err(|e| format!("{:?}", e)),
    });
    let mode = sink.mode.clone();
    let accepted = sink.inner.get_ref().clone();
    let returned = match &result {
        Ok(Ok(())) => "ok".to_string(),
        Ok(Err(e)) => format!("err:{}", e.chars().take(80).collect::<String>()),
        Err(p) => format!("panic:{}", p.chars().take(120).collect::<String>()),
    };
    if let Err(p) = &result {
        out.violate(Verdict::new("C13", "C13:sink-panic", &[("api", api), ("fault", &mode)], format!("{} on a failing writer panicked: {}", api, p)));
    }
    if sink.hard_fired && matches!(result, Ok(Ok(()))) {
        out.violate(Verdict::new("C13", "C13:sink-error-swallowed", &[("api", api), ("fault", &mode)], format!("{}: the writer failed but Ok was returned", api)));
    }
    if matches!(result, Ok(Ok(()))) && !sink.hard_fired {
        if let Err(e) = complete_new(api, &accepted, &reference, "") {
            out.violate(Verdict::new("C13", "C13:sink-ok-but-incomplete", &[("api", api), ("fault", &mode)], format!("{} returned Ok but the writer holds an incomplete file: {}", api, e)));
        }
    }
    if !sink.hard_fired && sink.soft_fired == 0 && !matches!(result, Ok(Ok(()))) {
        out.violate(Verdict::new("C13", "C13:error-without-fault", &[("api", api)], format!("{} without any fault returned {}", api, returned)));
    }
    if sink.soft_fired > 0 && !sink.hard_fired && !matches!(result, Ok(Ok(()))) {
        out.probe("retryable_fault_not_absorbed");
    }
    if sink.hard_fired {
        *out.faults_fired.entry(format!("sink:{}", mode)).or_insert(0) += 1;
    }
    if sink.soft_fired > 0 {
        *out.faults_fired.entry(format!("sink_soft:{}", mode)).or_insert(0) += sink.soft_fired;
    }
    out.probe_n("sink_flush_calls", sink.flushes);
    out.step("sink_calls", sink.calls);
    out.step("ops", case["ops"].as_array().map(|a| a.len()).unwrap_or(0) as u64);
    out.nontrivial = sink.hard_fired || sink.soft_fired > 0;
    out.signature = format!("{}|{:x}|{}", api, crate::rng::fnv(&case["ops"].to_string()), case["sink"]);
    out.record = json!({"returned": returned, "sink_calls": sink.calls, "accepted": accepted.len(), "reference_len": reference.bytes.len()});
    out
}

// ------------------------------------------------------------------------------------------------
// case generation: one "group" (workbook x api x destination) expands into many fault cases
// ------------------------------------------------------------------------------------------------

const WRITE_ERRNOS: &[i32] = &[libc::ENOSPC, libc::EIO, libc::EDQUOT, libc::EFBIG];
const OPEN_ERRNOS: &[i32] = &[libc::EACCES, libc::ENOSPC, libc::EMFILE, libc::EROFS, libc::ENOENT, libc::EISDIR];
const RENAME_ERRNOS: &[i32] = &[libc::EACCES, libc::EXDEV, libc::ENOSPC, libc::EIO, libc::EBUSY, libc::EISDIR];
const UNLINK_ERRNOS: &[i32] = &[libc::EACCES, libc::EPERM, libc::EIO];

fn errnos_for(call: &str) -> &'static [i32] {
    match call {
        "write" | "pwrite" | "writev" => WRITE_ERRNOS,
        "open" => OPEN_ERRNOS,
        "rename" => RENAME_ERRNOS,
        "unlink" => UNLINK_ERRNOS,
        "close" => &[libc::EIO],
        "lseek" => &[libc::EIO],
        _ => &[libc::EIO],
    }
}

fn offsets(len: u64, thorough: bool, rng: &mut Rng) -> Vec<u64> {
    let mut v: Vec<u64> = Vec::new();
    if thorough && len <= 20_000 {
        return (0..=len).collect();
    }
    for b in [0u64, 1, 2, 15, 16, 17, 100, 511, 512, 513, 4095, 4096, 4097, 8191, 8192, 8193, 8194, 12288, 16383, 16384, 16385] {
        if b <= len {
            v.push(b);
        }
    }
    for d in 0..4 {
        if len >= d {
            v.push(len - d);
        }
    }
    let extra = if thorough { 400 } else { 24 };
    for _ in 0..extra {
        v.push(rng.below(len + 1));
    }
    v.sort();
    v.dedup();
    v
}

/// Expand run `run_seed` into its list of cases. Performs one fault-free probing execution to learn
/// the call trace that the enumeration plans refer to.
pub fn cases(run_seed: u64, tier: &str, scratch: &str) -> Vec<Value> {
    let thorough = tier == "thorough";
    let mut sw = Rng::stream(run_seed, "swarm");
    let mut wl = Rng::stream(run_seed, "workload");
    let mut fr = Rng::stream(run_seed, "faults");
    let mut en = Rng::stream(run_seed, "entropy");
    // api mix: encrypted saves cost ~0.2 s each, keep them a minority
    let api = match sw.weighted(&[5, 5, 4, 1, 1, 1, 3, 2, 3]) {
        0 => "write",
        1 => "write_light",
        2 => "csv",
        3 => "write_pw",
        4 => "write_pw_light",
        5 => "set_password",
        6 => "sink_xlsx",
        7 => "sink_light",
        _ => "sink_csv",
    };
    let size_class = ["tiny", "small", "small", "large"][sw.usize(4)];
    let ops = gen_ops(&mut wl, if is_encrypted(api) && size_class == "large" { "small" } else { size_class }, is_csv(api));
    let mut base = new_case("C13", run_seed);
    base["api"] = json!(api);
    base["ops"] = serde_json::to_value(&ops).unwrap();
    base["dest"] = json!(if sw.chance(3, 4) { "existing" } else { "absent" });
    base["size_class"] = json!(size_class);
    base["entropy_seed"] = hex64(en.next_u64());
    let pw = ["pw", "", "päss wörd 😀", "x"][sw.usize(4)];
    base["password"] = json!(pw);
    let wrap = ["", "\"", "'"][sw.usize(3)];
    base["csv"] = json!({"enc": sw.below(10), "trim": sw.chance(1, 2), "wrap": wrap});
    base["faults"] = json!([]);
    // the (large) operation list is shared by all cases of this run: see engine::expand_shared
    let shared_ops = base["ops"].clone();
    base["same_path"] = json!(api == "set_password" && sw.chance(1, 3));
    base["tmp_exists"] = json!(sw.chance(1, 5));
    base["dest_name"] = json!(if sw.chance(1, 3) { ["ends_tmp", "only_tmp", "dots", "noext"][sw.usize(4)] } else { "plain" });
    base["bystanders"] = json!(sw.chance(1, 2));
    let mut out: Vec<Value> = Vec::new();

    if SINK_APIS.contains(&api) {
        let chunk = [0u64, 0, 7, 100, 1000, 4096][sw.usize(6)];
        let mut probe = base.clone();
        probe["sink"] = json!({"chunk": chunk, "mode": "none"});
        let o = execute_case(&probe, scratch);
        out.push(json!({"__shared__": {"ops": shared_ops}}));
        base.as_object_mut().unwrap().remove("ops");
        probe.as_object_mut().unwrap().remove("ops");
        out.push(probe);
        let ncalls = o.record["sink_calls"].as_u64().unwrap_or(1).max(1);
        let idxs: Vec<u64> = if ncalls <= 40 || thorough {
            (0..ncalls.min(400)).collect()
        } else {
            let mut v: Vec<u64> = vec![0, 1, 2, ncalls - 2, ncalls - 1];
            for _ in 0..24 {
                v.push(fr.below(ncalls));
            }
            v.sort();
            v.dedup();
            v
        };
        for n in idxs {
            for mode in ["error", "epipe", "zero", "short_then_error", "interrupted", "wouldblock"] {
                let mut c = base.clone();
                c["sink"] = json!({"chunk": chunk, "mode": mode, "fail_at": n, "burst": 1 + fr.below(8)});
                out.push(c);
            }
        }
        let mut c = base.clone();
        c["sink"] = json!({"chunk": chunk, "mode": "flush_error"});
        out.push(c);
        return out;
    }

    // fault-free probe
    let mut probe = base.clone();
    let o = execute_case(&probe, scratch);
    out.push(json!({"__shared__": {"ops": shared_ops}}));
    base.as_object_mut().unwrap().remove("ops");
    probe.as_object_mut().unwrap().remove("ops");
    out.push(probe);
    let by_kind = o.record["calls_by_kind"].clone();
    let reflen = o.record["reference_len"].as_u64().unwrap_or(0);
    let enc = is_encrypted(api);
    let budget_calls: u64 = if thorough { if enc { 400 } else { 100_000 } } else if enc { 6 } else { 60 };

    // (a) every call index of the fault-free trace x errno classes
    if let Some(m) = by_kind.as_object() {
        for (call, cnt) in m {
            let cnt = cnt.as_u64().unwrap_or(0);
            let idxs: Vec<u64> = if cnt <= budget_calls {
                (0..cnt).collect()
            } else {
                let mut v: Vec<u64> = vec![0, 1, 2, 3, cnt - 4, cnt - 3, cnt - 2, cnt - 1];
                for _ in 0..budget_calls {
                    v.push(fr.below(cnt));
                }
                v.sort();
                v.dedup();
                v
            };
            let errs = errnos_for(call);
            for n in idxs {
                let picks: Vec<i32> = if thorough && !enc { errs.to_vec() } else { vec![errs[fr.usize(errs.len())]] };
                for e in picks {
                    let mut c = base.clone();
                    c["faults"] = serde_json::to_value(vec![Fault::Nth { call: call.clone(), n, errno: e, sticky: call == "write" && fr.chance(1, 2) }]).unwrap();
                    out.push(c);
                }
                if call == "write" || call == "open" {
                    let mut c = base.clone();
                    c["faults"] = serde_json::to_value(vec![Fault::Eintr { call: call.clone(), n, burst: 1 + fr.below(4) }]).unwrap();
                    out.push(c);
                }
                if call == "write" && !enc {
                    let mut c = base.clone();
                    c["faults"] = serde_json::to_value(vec![Fault::Short { n, keep: 1 + fr.below(4096) }]).unwrap();
                    out.push(c);
                }
            }
        }
    }
    // (b) every byte offset at which the disk fills up / the size limit is hit
    let total = if enc { o.record["n_events"].as_u64().unwrap_or(0) * 0 + 20_000 } else { reflen };
    let offs = if enc {
        // encrypted container: sample offsets over the compound file's size
        let mut v = vec![0u64, 1, 511, 512, 513, 1024, 4096, 8192];
        for _ in 0..(if thorough { 100 } else { 4 }) {
            v.push(fr.below(total));
        }
        v.sort();
        v.dedup();
        v
    } else {
        offsets(total, thorough, &mut fr)
    };
    for b in offs {
        let mut c = base.clone();
        c["faults"] = serde_json::to_value(vec![Fault::Capacity { bytes: b, errno: if fr.chance(3, 4) { libc::ENOSPC } else { libc::EDQUOT } }]).unwrap();
        out.push(c);
        if !enc || fr.chance(1, 3) {
            let mut c = base.clone();
            c["faults"] = serde_json::to_value(vec![Fault::FileLimit { bytes: b }]).unwrap();
            out.push(c);
        }
    }
    // (d) cross-check tier against the real kernel: child processes under a real RLIMIT_FSIZE and with a
    // real SIGKILL at a call boundary
    let nreal = if thorough { 12 } else { 2 };
    let n_events = o.record["n_events"].as_u64().unwrap_or(4).max(1);
    for k in 0..nreal {
        let mut c = base.clone();
        if k % 2 == 0 {
            c["real"] = json!({"fsize": fr.below(total.max(1) + 1)});
        } else {
            c["real"] = json!({"kill_at": fr.below(n_events + 1), "phase": fr.below(2)});
        }
        out.push(c);
    }
    // (c) random multi-fault plans
    let nmulti = if thorough { 60 } else { 10 };
    for _ in 0..(if enc { nmulti / 5 } else { nmulti }) {
        let k = 2 + fr.usize(2);
        let mut fs = Vec::new();
        for _ in 0..k {
            let f = match fr.usize(6) {
                0 => Fault::Capacity { bytes: fr.below(total + 1), errno: libc::ENOSPC },
                1 => Fault::FileLimit { bytes: fr.below(total + 1) },
                2 => {
                    let calls = ["write", "open", "rename", "unlink", "close"];
                    let call = calls[fr.usize(calls.len())];
                    let errs = errnos_for(call);
                    Fault::Nth { call: call.to_string(), n: fr.below(3), errno: errs[fr.usize(errs.len())], sticky: fr.chance(1, 3) }
                }
                3 => Fault::Eintr { call: "write".into(), n: fr.below(4), burst: 1 + fr.below(8) },
                4 => Fault::Short { n: fr.below(4), keep: 1 + fr.below(8192) },
                _ => Fault::Nth { call: "unlink".into(), n: 0, errno: libc::EACCES, sticky: true },
            };
            fs.push(f);
        }
        let mut c = base.clone();
        c["faults"] = serde_json::to_value(fs).unwrap();
        out.push(c);
    }
    out
}


// ------------------------------------------------------------------------------------------------
// cross-check tier: the same saves in a child process against the real kernel — a real RLIMIT_FSIZE
// (SIGXFSZ ignored) instead of forged short writes / EFBIG, and a real SIGKILL at a call boundary
// instead of reading the destination in-process. No result is forged here; the shim only counts calls.
// ------------------------------------------------------------------------------------------------

fn call_api(api: &str, book: &umya::Spreadsheet, case: &Value, dest: &str, from: &str, password: &str, entropy_seed: u64) -> Result<(), String> {
    let call = || -> Result<(), String> {
        let p = std::path::Path::new(dest);
        match api {
            "write" => umya::writer::xlsx::write(book, p).map_err(|e| format!("{:?}", e)),
            "write_light" => umya::writer::xlsx::write_light(book, p).map_err(|e| format!("{:?}", e)),
            "csv" => umya::writer::csv::write(book, p, Some(&csv_option(case))).map_err(|e| format!("{:?}", e)),
            "write_pw" => umya::writer::xlsx::write_with_password(book, p, password).map_err(|e| format!("{:?}", e)),
            "write_pw_light" => umya::writer::xlsx::write_with_password_light(book, p, password).map_err(|e| format!("{:?}", e)),
            "set_password" => umya::writer::xlsx::set_password(std::path::Path::new(from), p, password).map_err(|e| format!("{:?}", e)),
            _ => Err("unknown api".into()),
        }
    };
    if is_encrypted(api) {
        let mut er = Rng::new(entropy_seed);
        umya::verif_hooks::with_entropy(Box::new(move |b: &mut [u8]| er.fill(b)), call)
    } else {
        call()
    }
}

/// entry point of `usim child --case FILE`: performs the save for real and prints one result line
pub fn child_main(case: &Value) -> i32 {
    let api = case["api"].as_str().unwrap_or("write").to_string();
    let root = case["real"]["root"].as_str().unwrap_or("").to_string();
    let ext = if is_csv(&api) { "csv" } else { "xlsx" };
    let dest = format!("{}/out.{}", root, ext);
    let from = format!("{}/in.xlsx", root);
    let book = build_book(case);
    let password = case["password"].as_str().unwrap_or("pw").to_string();
    crate::shim::set_thread_hash_seed(get_u64(case, "hash_seed"));
    let plan: Vec<Fault> = match case["real"]["kill_at"].as_u64() {
        Some(at) => vec![Fault::Kill { at, phase: case["real"]["phase"].as_u64().unwrap_or(0) as u8 }],
        None => vec![],
    };
    if let Some(limit) = case["real"]["fsize"].as_u64() {
        unsafe {
            libc::signal(libc::SIGXFSZ, libc::SIG_IGN);
            let rl = libc::rlimit { rlim_cur: limit, rlim_max: limit };
            libc::setrlimit(libc::RLIMIT_FSIZE, &rl);
        }
    }
    shim::arm(ShimState::new(&root, &dest, plan));
    let r = guarded(|| call_api(&api, &book, case, &dest, &from, &password, get_u64(case, "entropy_seed")));
    let st = shim::disarm();
    let returned = match &r {
        Ok(Ok(())) => "ok".to_string(),
        Ok(Err(e)) => format!("err:{}", e.chars().take(80).collect::<String>()),
        Err(p) => format!("panic:{}", p.chars().take(120).collect::<String>()),
    };
    // stdout may be limited by RLIMIT_FSIZE if redirected to a file; the parent reads a pipe
    println!("{}", json!({"returned": returned, "events": st.map(|s| s.events.len()).unwrap_or(0)}));
    0
}

fn execute_real(case: &Value, scratch: &str, api: &str) -> Outcome {
    let mut out = Outcome::default();
    let book = build_book(case);
    let password = case["password"].as_str().unwrap_or("pw").to_string();
    let reference = match make_reference(api, &book, case) {
        Ok(r) => r,
        Err(e) => {
            out.harness_error = Some(e);
            return out;
        }
    };
    let dest_existing = case["dest"].as_str().unwrap_or("existing") == "existing";
    let n = DIR_COUNTER.fetch_add(1, Ordering::Relaxed);
    let root = format!("{}/c13r-{}-{}", scratch, std::process::id(), n);
    let _ = std::fs::remove_dir_all(&root);
    if std::fs::create_dir_all(&root).is_err() {
        out.harness_error = Some("mkdir failed".into());
        return out;
    }
    let ext = if is_csv(api) { "csv" } else { "xlsx" };
    let dest = format!("{}/out.{}", root, ext);
    let old: Vec<u8> = if is_csv(api) { b"old,file\r\n1,2\r\n".to_vec() } else { old_bytes() };
    if dest_existing {
        std::fs::write(&dest, &old).unwrap();
    }
    if api == "set_password" {
        std::fs::write(format!("{}/in.xlsx", root), &reference.bytes).unwrap();
    }
    let mut c2 = case.clone();
    c2["real"]["root"] = json!(root);
    let case_file = format!("{}/case.json", root);
    std::fs::write(&case_file, c2.to_string()).unwrap();
    let exe = std::env::current_exe().unwrap();
    let res = std::process::Command::new(exe).arg("child").arg("--case").arg(&case_file).stdout(std::process::Stdio::piped()).stderr(std::process::Stdio::null()).output();
    let (killed, returned) = match res {
        Ok(o) => {
            use std::os::unix::process::ExitStatusExt;
            let sig = o.status.signal();
            let line = String::from_utf8_lossy(&o.stdout).to_string();
            let ret = serde_json::from_str::<Value>(line.trim()).ok().and_then(|v| v["returned"].as_str().map(|s| s.to_string()));
            (sig == Some(libc::SIGKILL), ret)
        }
        Err(e) => {
            out.harness_error = Some(format!("cannot spawn child: {}", e));
            return out;
        }
    };
    let content: crate::shim::Content = std::fs::read(&dest).ok();
    let class = match &content {
        None => "absent".to_string(),
        Some(b) if dest_existing && *b == old => "old".to_string(),
        Some(b) => match complete_new(api, b, &reference, &password) {
            Ok(()) => "new".to_string(),
            Err(e) => format!("partial({} bytes): {}", b.len(), e),
        },
    };
    let dest_kind = if dest_existing { "existing" } else { "absent" };
    let mode = if case["real"]["kill_at"].is_u64() { "kill" } else { "rlimit" };
    let allowed = class == "new" || (dest_existing && class == "old") || (!dest_existing && class == "absent");
    if !allowed {
        let kind = if class == "absent" { "missing" } else { "partial" };
        out.violate(Verdict::new(
            "C13",
            "C13:dest-damaged",
            &[("api", api), ("dest", dest_kind), ("state", kind)],
            format!("real kernel ({}): after the child {} the destination is {}", mode, if killed { "was killed" } else { "returned" }, class),
        ));
    }
    match returned.as_deref() {
        Some("ok") if class != "new" => out.violate(Verdict::new("C13", "C13:ok-but-incomplete", &[("api", api), ("fault", "file_limit")], format!("real RLIMIT_FSIZE: {} returned Ok but the destination is {}", api, class))),
        Some(r) if r.starts_with("panic") => out.violate(Verdict::new("C13", "C13:panic-instead-of-error", &[("api", api), ("fault", "file_limit")], format!("real RLIMIT_FSIZE: {}", r))),
        None if !killed => out.harness_error = Some("child produced no result and was not killed".into()),
        _ => {}
    }
    *out.faults_fired.entry(format!("real:{}", mode)).or_insert(0) += 1;
    if killed {
        out.probe("real_sigkill_delivered");
    }
    if mode == "rlimit" && returned.as_deref().map(|r| r.starts_with("err")).unwrap_or(false) {
        out.probe("real_rlimit_reported_as_err");
    }
    out.nontrivial = true;
    out.signature = format!("real|{}|{}|{:x}|{}", api, dest_kind, crate::rng::fnv(&case["ops"].to_string()), case["real"]);
    out.record = json!({"returned": returned, "killed": killed, "dest": class, "reference_len": reference.bytes.len()});
    let _ = std::fs::remove_dir_all(&root);
    out
}
