//! Independent ECMA-376 agile decryptor (MS-OFFCRYPTO 2.3.4.10-15) with its own minimal compound
//! file reader (MS-CFB), and the ECMA-376 password-hash of sheet/workbook protection. Shares no code
//! with the library under test; trusted base: RustCrypto primitives (sha2, aes, cbc, hmac), base64.

use aes::cipher::{block_padding::NoPadding, BlockDecryptMut, KeyIvInit};
use base64::{engine::general_purpose::STANDARD, Engine as _};
use hmac::{Hmac, Mac};
use sha2::{Digest, Sha512};
use std::collections::BTreeMap;

type Aes256CbcDec = cbc::Decryptor<aes::Aes256>;
type Aes128CbcDec = cbc::Decryptor<aes::Aes128>;

fn u16le(b: &[u8], o: usize) -> u16 {
    u16::from_le_bytes([b[o], b[o + 1]])
}
fn u32le(b: &[u8], o: usize) -> u32 {
    u32::from_le_bytes([b[o], b[o + 1], b[o + 2], b[o + 3]])
}
fn u64le(b: &[u8], o: usize) -> u64 {
    let mut a = [0u8; 8];
    a.copy_from_slice(&b[o..o + 8]);
    u64::from_le_bytes(a)
}

const ENDOFCHAIN: u32 = 0xFFFFFFFE;
const FREESECT: u32 = 0xFFFFFFFF;

/// Minimal MS-CFB reader: returns all streams by name (tree structure ignored).
pub fn cfb_streams(data: &[u8]) -> Result<BTreeMap<String, Vec<u8>>, String> {
    if data.len() < 512 {
        return Err(format!("cfb: file too short ({} bytes)", data.len()));
    }
    if data[0..8] != [0xD0, 0xCF, 0x11, 0xE0, 0xA1, 0xB1, 0x1A, 0xE1] {
        return Err("cfb: bad signature".into());
    }
    let sector_shift = u16le(data, 30) as u32;
    let mini_shift = u16le(data, 32) as u32;
    if sector_shift != 9 && sector_shift != 12 {
        return Err(format!("cfb: sector shift {}", sector_shift));
    }
    let ss = 1usize << sector_shift;
    let mss = 1usize << mini_shift;
    let num_fat = u32le(data, 44) as usize;
    let first_dir = u32le(data, 48);
    let mini_cutoff = u32le(data, 56) as u64;
    let first_minifat = u32le(data, 60);
    let first_difat = u32le(data, 68);
    let num_difat = u32le(data, 72) as usize;
    let sector = |id: u32| -> Result<&[u8], String> {
        let off = (id as usize + 1) * ss;
        // v3 files: header occupies one 512-byte sector; v4: header padded to 4096
        if off + ss > data.len() {
            return Err(format!("cfb: sector {} beyond end of file ({} > {})", id, off + ss, data.len()));
        }
        Ok(&data[off..off + ss])
    };
    // DIFAT
    let mut fat_sectors: Vec<u32> = Vec::new();
    for i in 0..109 {
        let v = u32le(data, 76 + 4 * i);
        if v != FREESECT {
            fat_sectors.push(v);
        }
    }
    let mut d = first_difat;
    let mut guard = 0;
    while d != ENDOFCHAIN && d != FREESECT && guard < num_difat + 4 {
        let s = sector(d)?;
        let n = ss / 4 - 1;
        for i in 0..n {
            let v = u32le(s, 4 * i);
            if v != FREESECT {
                fat_sectors.push(v);
            }
        }
        d = u32le(s, 4 * n);
        guard += 1;
    }
    if fat_sectors.len() < num_fat {
        return Err("cfb: DIFAT shorter than declared FAT count".into());
    }
    let mut fat: Vec<u32> = Vec::new();
    for &fs in fat_sectors.iter().take(num_fat) {
        let s = sector(fs)?;
        for i in 0..ss / 4 {
            fat.push(u32le(s, 4 * i));
        }
    }
    let chain = |start: u32| -> Result<Vec<u8>, String> {
        let mut out = Vec::new();
        let mut cur = start;
        let mut steps = 0usize;
        while cur != ENDOFCHAIN && cur != FREESECT {
            out.extend_from_slice(sector(cur)?);
            cur = *fat.get(cur as usize).ok_or(format!("cfb: FAT index {} out of range", cur))?;
            steps += 1;
            if steps > fat.len() + 1 {
                return Err("cfb: FAT chain loops".into());
            }
        }
        Ok(out)
    };
    let dir = chain(first_dir)?;
    let minifat_raw = if first_minifat != ENDOFCHAIN && first_minifat != FREESECT { chain(first_minifat)? } else { Vec::new() };
    let minifat: Vec<u32> = (0..minifat_raw.len() / 4).map(|i| u32le(&minifat_raw, 4 * i)).collect();
    let mut entries: Vec<(String, u8, u32, u64)> = Vec::new();
    for e in dir.chunks(128) {
        if e.len() < 128 {
            break;
        }
        let typ = e[66];
        if typ == 0 {
            continue;
        }
        let nlen = u16le(e, 64) as usize;
        let nchars = if nlen >= 2 { (nlen - 2) / 2 } else { 0 };
        let name: String = char::decode_utf16((0..nchars).map(|i| u16le(e, 2 * i))).map(|c| c.unwrap_or('?')).collect();
        let start = u32le(e, 116);
        let size = if ss == 512 { u32le(e, 120) as u64 } else { u64le(e, 120) };
        entries.push((name, typ, start, size));
    }
    let root = entries.iter().find(|e| e.1 == 5).ok_or("cfb: no root entry")?.clone();
    let ministream = if root.2 != ENDOFCHAIN && root.2 != FREESECT { chain(root.2)? } else { Vec::new() };
    let mut out = BTreeMap::new();
    for (name, typ, start, size) in entries {
        if typ != 2 {
            continue;
        }
        let bytes = if size < mini_cutoff {
            let mut v = Vec::new();
            let mut cur = start;
            let mut steps = 0;
            while cur != ENDOFCHAIN && cur != FREESECT && (v.len() as u64) < size {
                let off = cur as usize * mss;
                if off + mss > ministream.len() {
                    return Err(format!("cfb: mini sector {} beyond mini stream", cur));
                }
                v.extend_from_slice(&ministream[off..off + mss]);
                cur = *minifat.get(cur as usize).ok_or("cfb: minifat index out of range")?;
                steps += 1;
                if steps > minifat.len() + 1 {
                    return Err("cfb: minifat chain loops".into());
                }
            }
            v
        } else {
            chain(start)?
        };
        if (bytes.len() as u64) < size {
            return Err(format!("cfb: stream {} shorter ({}) than declared size {}", name, bytes.len(), size));
        }
        let mut bytes = bytes;
        bytes.truncate(size as usize);
        if out.insert(name.clone(), bytes).is_some() {
            return Err(format!("cfb: duplicate stream {}", name));
        }
    }
    Ok(out)
}

fn sha512(parts: &[&[u8]]) -> Vec<u8> {
    let mut h = Sha512::new();
    for p in parts {
        h.update(p);
    }
    h.finalize().to_vec()
}

fn utf16le(s: &str) -> Vec<u8> {
    s.encode_utf16().flat_map(|u| u.to_le_bytes()).collect()
}

/// MS-OFFCRYPTO 2.3.4.11: iterated hash with the iterator *prepended*
fn agile_iter_hash(password: &str, salt: &[u8], spin: u32) -> Vec<u8> {
    let mut h = sha512(&[salt, &utf16le(password)]);
    for i in 0..spin {
        h = sha512(&[&i.to_le_bytes(), &h]);
    }
    h
}

fn fit(mut v: Vec<u8>, n: usize, pad: u8) -> Vec<u8> {
    v.resize(n, pad);
    v.truncate(n);
    v
}

fn aes_cbc_dec(key: &[u8], iv: &[u8], data: &[u8]) -> Result<Vec<u8>, String> {
    if data.len() % 16 != 0 {
        return Err(format!("ciphertext length {} not a multiple of 16", data.len()));
    }
    let mut buf = data.to_vec();
    match key.len() {
        32 => {
            Aes256CbcDec::new_from_slices(key, iv).map_err(|e| e.to_string())?.decrypt_padded_mut::<NoPadding>(&mut buf).map_err(|e| e.to_string())?;
        }
        16 => {
            Aes128CbcDec::new_from_slices(key, iv).map_err(|e| e.to_string())?.decrypt_padded_mut::<NoPadding>(&mut buf).map_err(|e| e.to_string())?;
        }
        n => return Err(format!("unsupported key length {}", n)),
    }
    Ok(buf)
}

#[derive(Clone, Debug, Default)]
pub struct AgileInfo {
    pub key_data_salt: Vec<u8>,
    pub key_data_block_size: usize,
    pub key_data_key_bits: usize,
    pub key_data_hash_size: usize,
    pub key_data_cipher: String,
    pub key_data_chaining: String,
    pub key_data_hash: String,
    pub enc_hmac_key: Vec<u8>,
    pub enc_hmac_value: Vec<u8>,
    pub spin: u32,
    pub pw_salt: Vec<u8>,
    pub pw_block_size: usize,
    pub pw_key_bits: usize,
    pub pw_hash_size: usize,
    pub pw_cipher: String,
    pub pw_chaining: String,
    pub pw_hash: String,
    pub enc_verifier_input: Vec<u8>,
    pub enc_verifier_hash: Vec<u8>,
    pub enc_key_value: Vec<u8>,
}

#[derive(Clone, Debug, Default)]
pub struct Decrypted {
    pub package: Vec<u8>,
    pub declared_len: u64,
    pub info: AgileInfo,
    pub package_key: Vec<u8>,
    pub verifier_input: Vec<u8>,
    pub hmac_key: Vec<u8>,
    pub hmac_ok: bool,
}

#[derive(Debug, Clone, PartialEq)]
pub enum DecErr {
    /// not a well-formed agile-encrypted compound file
    Malformed(String),
    /// the password verifier does not match
    WrongPassword,
    /// verifier matched but integrity failed
    Integrity(String),
}

fn b64(s: Option<&str>, what: &str) -> Result<Vec<u8>, DecErr> {
    STANDARD.decode(s.ok_or(DecErr::Malformed(format!("missing {}", what)))?).map_err(|e| DecErr::Malformed(format!("{}: {}", what, e)))
}

pub fn parse_info(info: &[u8]) -> Result<AgileInfo, DecErr> {
    if info.len() < 8 {
        return Err(DecErr::Malformed("EncryptionInfo too short".into()));
    }
    if u16le(info, 0) != 4 || u16le(info, 2) != 4 {
        return Err(DecErr::Malformed(format!("EncryptionInfo version {}.{} is not agile 4.4", u16le(info, 0), u16le(info, 2))));
    }
    if u32le(info, 4) != 0x40 {
        return Err(DecErr::Malformed(format!("EncryptionInfo flags {:#x} != 0x40", u32le(info, 4))));
    }
    let root = crate::decode::parse_xml(&info[8..]).map_err(|e| DecErr::Malformed(format!("EncryptionInfo xml: {}", e)))?;
    if root.name != "encryption" {
        return Err(DecErr::Malformed("root is not <encryption>".into()));
    }
    let kd = root.child("keyData").ok_or(DecErr::Malformed("no keyData".into()))?;
    let di = root.child("dataIntegrity").ok_or(DecErr::Malformed("no dataIntegrity".into()))?;
    let ek = root
        .child("keyEncryptors")
        .and_then(|k| k.child("keyEncryptor"))
        .and_then(|k| k.child("encryptedKey"))
        .ok_or(DecErr::Malformed("no encryptedKey".into()))?;
    let num = |e: &crate::decode::El, k: &str| -> Result<usize, DecErr> {
        e.attr(k).and_then(|v| v.parse().ok()).ok_or(DecErr::Malformed(format!("missing/bad {}", k)))
    };
    Ok(AgileInfo {
        key_data_salt: b64(kd.attr("saltValue"), "keyData saltValue")?,
        key_data_block_size: num(kd, "blockSize")?,
        key_data_key_bits: num(kd, "keyBits")?,
        key_data_hash_size: num(kd, "hashSize")?,
        key_data_cipher: kd.attr("cipherAlgorithm").unwrap_or("").to_string(),
        key_data_chaining: kd.attr("cipherChaining").unwrap_or("").to_string(),
        key_data_hash: kd.attr("hashAlgorithm").unwrap_or("").to_string(),
        enc_hmac_key: b64(di.attr("encryptedHmacKey"), "encryptedHmacKey")?,
        enc_hmac_value: b64(di.attr("encryptedHmacValue"), "encryptedHmacValue")?,
        spin: num(ek, "spinCount")? as u32,
        pw_salt: b64(ek.attr("saltValue"), "encryptedKey saltValue")?,
        pw_block_size: num(ek, "blockSize")?,
        pw_key_bits: num(ek, "keyBits")?,
        pw_hash_size: num(ek, "hashSize")?,
        pw_cipher: ek.attr("cipherAlgorithm").unwrap_or("").to_string(),
        pw_chaining: ek.attr("cipherChaining").unwrap_or("").to_string(),
        pw_hash: ek.attr("hashAlgorithm").unwrap_or("").to_string(),
        enc_verifier_input: b64(ek.attr("encryptedVerifierHashInput"), "encryptedVerifierHashInput")?,
        enc_verifier_hash: b64(ek.attr("encryptedVerifierHashValue"), "encryptedVerifierHashValue")?,
        enc_key_value: b64(ek.attr("encryptedKeyValue"), "encryptedKeyValue")?,
    })
}

const BK_VERIFIER_INPUT: [u8; 8] = [0xfe, 0xa7, 0xd2, 0x76, 0x3b, 0x4b, 0x9e, 0x79];
const BK_VERIFIER_VALUE: [u8; 8] = [0xd7, 0xaa, 0x0f, 0x6d, 0x30, 0x61, 0x34, 0x4e];
const BK_KEY: [u8; 8] = [0x14, 0x6e, 0x0b, 0xe7, 0xab, 0xac, 0xd0, 0xd6];
const BK_HMAC_KEY: [u8; 8] = [0x5f, 0xb2, 0xad, 0x01, 0x0c, 0xb9, 0xe1, 0xf6];
const BK_HMAC_VALUE: [u8; 8] = [0xa0, 0x67, 0x7f, 0x02, 0xb2, 0x2c, 0x84, 0x33];

/// Decrypt an agile-encrypted compound file with `password`.
pub fn decrypt(file: &[u8], password: &str) -> Result<Decrypted, DecErr> {
    let streams = cfb_streams(file).map_err(DecErr::Malformed)?;
    let info_raw = streams.get("EncryptionInfo").ok_or(DecErr::Malformed("no EncryptionInfo stream".into()))?;
    let pkg = streams.get("EncryptedPackage").ok_or(DecErr::Malformed("no EncryptedPackage stream".into()))?;
    let info = parse_info(info_raw)?;
    for (what, v) in [("cipher", &info.key_data_cipher), ("cipher", &info.pw_cipher)] {
        if v != "AES" {
            return Err(DecErr::Malformed(format!("{} {} unsupported", what, v)));
        }
    }
    for v in [&info.key_data_chaining, &info.pw_chaining] {
        if v != "ChainingModeCBC" {
            return Err(DecErr::Malformed(format!("chaining {} unsupported", v)));
        }
    }
    for v in [&info.key_data_hash, &info.pw_hash] {
        if v != "SHA512" {
            return Err(DecErr::Malformed(format!("hash {} unsupported", v)));
        }
    }
    if info.pw_salt.len() != 16 || info.key_data_salt.len() != 16 {
        return Err(DecErr::Malformed("salt length != 16".into()));
    }
    let kb = info.pw_key_bits / 8;
    let hn = agile_iter_hash(password, &info.pw_salt, info.spin);
    let derive = |bk: &[u8]| fit(sha512(&[&hn, bk]), kb, 0x36);
    let iv_pw = fit(info.pw_salt.clone(), info.pw_block_size, 0x36);
    let verifier_input = aes_cbc_dec(&derive(&BK_VERIFIER_INPUT), &iv_pw, &info.enc_verifier_input).map_err(DecErr::Malformed)?;
    let verifier_hash = aes_cbc_dec(&derive(&BK_VERIFIER_VALUE), &iv_pw, &info.enc_verifier_hash).map_err(DecErr::Malformed)?;
    let vi = fit(verifier_input.clone(), info.pw_salt.len(), 0);
    let expect = sha512(&[&vi]);
    if verifier_hash.len() < info.pw_hash_size || expect[..info.pw_hash_size] != verifier_hash[..info.pw_hash_size] {
        return Err(DecErr::WrongPassword);
    }
    let package_key = fit(aes_cbc_dec(&derive(&BK_KEY), &iv_pw, &info.enc_key_value).map_err(DecErr::Malformed)?, info.key_data_key_bits / 8, 0);
    if pkg.len() < 8 {
        return Err(DecErr::Integrity("EncryptedPackage shorter than its length prefix".into()));
    }
    let declared = u64le(pkg, 0);
    let body = &pkg[8..];
    if body.len() % 16 != 0 {
        return Err(DecErr::Integrity(format!("EncryptedPackage body {} not a multiple of 16", body.len())));
    }
    if (body.len() as u64) < declared {
        return Err(DecErr::Integrity(format!("declared length {} exceeds encrypted body {}", declared, body.len())));
    }
    let mut plain = Vec::with_capacity(body.len());
    for (i, seg) in body.chunks(4096).enumerate() {
        let iv = fit(sha512(&[&info.key_data_salt, &(i as u32).to_le_bytes()]), info.key_data_block_size, 0x36);
        plain.extend(aes_cbc_dec(&package_key, &iv, seg).map_err(DecErr::Integrity)?);
    }
    plain.truncate(declared as usize);
    // data integrity
    let iv_hk = fit(sha512(&[&info.key_data_salt, &BK_HMAC_KEY]), info.key_data_block_size, 0x36);
    let iv_hv = fit(sha512(&[&info.key_data_salt, &BK_HMAC_VALUE]), info.key_data_block_size, 0x36);
    let hmac_key = fit(aes_cbc_dec(&package_key, &iv_hk, &info.enc_hmac_key).map_err(DecErr::Integrity)?, info.key_data_hash_size, 0);
    let hmac_val = aes_cbc_dec(&package_key, &iv_hv, &info.enc_hmac_value).map_err(DecErr::Integrity)?;
    let mut mac = Hmac::<Sha512>::new_from_slice(&hmac_key).map_err(|e| DecErr::Integrity(e.to_string()))?;
    mac.update(pkg);
    let got = mac.finalize().into_bytes().to_vec();
    let hmac_ok = hmac_val.len() >= info.key_data_hash_size && got[..info.key_data_hash_size] == hmac_val[..info.key_data_hash_size];
    Ok(Decrypted { package: plain, declared_len: declared, info, package_key, verifier_input: vi, hmac_key, hmac_ok })
}

/// ECMA-376 Part 1 §18.2.29 / §18.3.1.85 password hash (iterator *appended*), base64.
pub fn protection_hash(password: &str, salt: &[u8], spin: u32) -> String {
    let mut h = sha512(&[salt, &utf16le(password)]);
    for i in 0..spin {
        h = sha512(&[&h, &i.to_le_bytes()]);
    }
    STANDARD.encode(h)
}

pub fn b64dec(s: &str) -> Option<Vec<u8>> {
    STANDARD.decode(s).ok()
}
