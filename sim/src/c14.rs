//! C14 — encrypted output decrypts to the exact package, with the right password only; salts, package
//! key and verifier input are fresh on every save. The output is a function of (password, package,
//! five draws from the OS entropy source); the simulator owns the draws (S4): every run is exactly
//! repeatable, freshness is checked by *identity* (the salt found in EncryptionInfo is draw #k of this
//! save) and adversarial draws are possible. File I/O of the same calls is simulated under C13.
//!
//! C15 — protection password hashes verify per ECMA-376, salt fresh per call, no clear text; lives in
//! the same module because it shares the entropy seam and the independent crypto.

use crate::crypto::{self, DecErr};
use crate::decode;
use crate::engine::*;
use crate::rng::Rng;
use crate::world::{self, Op};
use serde_json::{json, Value};
use std::cell::RefCell;
use std::rc::Rc;
use std::sync::atomic::{AtomicU64, Ordering};
use umya_spreadsheet as umya;

type Draws = Rc<RefCell<Vec<Vec<u8>>>>;

/// recording entropy source
fn source(mode: &str, seed: u64, log: Draws) -> Box<dyn FnMut(&mut [u8])> {
    let mut rng = Rng::new(seed);
    let mode = mode.to_string();
    let mut counter = 0u8;
    Box::new(move |buf: &mut [u8]| {
        match mode.as_str() {
            "zero" => buf.iter_mut().for_each(|b| *b = 0),
            "ff" => buf.iter_mut().for_each(|b| *b = 0xff),
            "repeat" => buf.iter_mut().for_each(|b| *b = 0x5a),
            // bytes whose base64 contains + / and padding-relevant tails
            "b64special" => {
                for (i, b) in buf.iter_mut().enumerate() {
                    *b = [0xfb, 0xff, 0xbf, 0x3e, 0x3f][(i + counter as usize) % 5];
                }
                counter = counter.wrapping_add(1);
            }
            _ => rng.fill(buf),
        }
        log.borrow_mut().push(buf.to_vec());
    })
}

static DIR_COUNTER: AtomicU64 = AtomicU64::new(0);

fn other_password(pw: &str) -> String {
    // one edit away
    if pw.is_empty() {
        "x".to_string()
    } else {
        let mut cs: Vec<char> = pw.chars().collect();
        let last = cs.len() - 1;
        cs[last] = if cs[last] == 'a' { 'b' } else { 'a' };
        cs.into_iter().collect()
    }
}

pub fn gen_password(rng: &mut Rng) -> String {
    match rng.usize(9) {
        // at most 255 characters, but more than 255 UTF-16 code units
        7 => (0..255).map(|i| if i < 201 { 'a' } else { '😀' }).collect(),
        8 => (0..(128 + rng.usize(100))).map(|i| if i % 2 == 0 { '𝄞' } else { 'x' }).collect(),
        0 => String::new(),
        1 => "password".to_string(),
        2 => "Pa$$w0rd & <co>".to_string(),
        3 => "pässwörd ß".to_string(),
        4 => "密码🔒𝄞".to_string(),
        5 => (0..255).map(|i| (b'a' + (i % 26) as u8) as char).collect(),
        _ => (0..(1 + rng.usize(20))).map(|_| ['a', 'Z', '0', ' ', 'é', '日', '😀'][rng.usize(7)]).collect(),
    }
}

pub fn execute(case: &Value, scratch: &str) -> Outcome {
    match case["engine"].as_str().unwrap_or("") {
        "C15" => execute_c15(case, scratch),
        _ => execute_c14(case, scratch),
    }
}

fn execute_c14(case: &Value, scratch: &str) -> Outcome {
    let mut out = Outcome::default();
    let api = case["api"].as_str().unwrap_or("set_password").to_string();
    let password = case["password"].as_str().unwrap_or("").to_string();
    let mode = case["entropy"]["mode"].as_str().unwrap_or("prng").to_string();
    let eseed = get_u64(&case["entropy"], "seed");
    let n = DIR_COUNTER.fetch_add(1, Ordering::Relaxed);
    let root = format!("{}/c14-{}-{}", scratch, std::process::id(), n);
    let _ = std::fs::remove_dir_all(&root);
    if std::fs::create_dir_all(&root).is_err() {
        out.harness_error = Some("mkdir failed".into());
        return out;
    }
    // the package
    let raw_len = case["raw_len"].as_u64();
    let ops: Vec<Op> = serde_json::from_value(case["ops"].clone()).unwrap_or_default();
    let mut book = umya::new_file();
    world::apply_all(&mut book, &ops);
    let light = api == "write_pw_light";
    let package: Vec<u8> = match (api.as_str(), raw_len) {
        ("set_password", Some(l)) => {
            let mut r = Rng::new(eseed ^ 0xabcdef);
            r.bytes(l as usize)
        }
        _ => match guarded(|| world::save_mem(&book, light)) {
            Ok(Ok(b)) => b,
            _ => {
                out.harness_error = Some("reference save failed".into());
                return out;
            }
        },
    };
    let reference_content = if raw_len.is_none() || api != "set_password" { decode::decode(&package).ok().map(|d| d.content()) } else { None };
    let from = format!("{}/in.xlsx", root);
    if api == "set_password" {
        std::fs::write(&from, &package).unwrap();
    }
    let log: Draws = Rc::new(RefCell::new(Vec::new()));
    let src = source(&mode, eseed, log.clone());
    let mut files: Vec<Vec<u8>> = Vec::new();
    let mut draws_per_save: Vec<Vec<Vec<u8>>> = Vec::new();
    let r = guarded(|| {
        umya::verif_hooks::with_entropy(src, || {
            for k in 0..2 {
                let before = log.borrow().len();
                let dest = format!("{}/out{}.xlsx", root, k);
                let p = std::path::Path::new(&dest);
                let res = match api.as_str() {
                    "write_pw" => umya::writer::xlsx::write_with_password(&book, p, &password).map_err(|e| format!("{:?}", e)),
                    "write_pw_light" => umya::writer::xlsx::write_with_password_light(&book, p, &password).map_err(|e| format!("{:?}", e)),
                    _ => umya::writer::xlsx::set_password(std::path::Path::new(&from), p, &password).map_err(|e| format!("{:?}", e)),
                };
                if let Err(e) = res {
                    return Err(format!("save {} failed: {}", k, e));
                }
                files.push(std::fs::read(&dest).map_err(|e| e.to_string())?);
                draws_per_save.push(log.borrow()[before..].to_vec());
            }
            Ok(())
        })
    });
    let _ = std::fs::remove_dir_all(&root);
    let apif = api.as_str();
    match r {
        Err(p) => {
            out.violate(Verdict::new("C14", "C14:save-panics", &[("api", apif)], format!("{} panicked: {}", api, p.chars().take(200).collect::<String>())));
            return out;
        }
        Ok(Err(e)) => {
            out.violate(Verdict::new("C14", "C14:save-fails", &[("api", apif)], e));
            return out;
        }
        Ok(Ok(())) => {}
    }
    let mut infos = Vec::new();
    for (k, f) in files.iter().enumerate() {
        out.step("encrypted_saves", 1);
        match crypto::decrypt(f, &password) {
            Err(DecErr::WrongPassword) => {
                out.violate(Verdict::new("C14", "C14:verifier-mismatch", &[("api", apif)], format!("save {}: the password verifier does not match the password that was used", k)));
                continue;
            }
            Err(e) => {
                out.violate(Verdict::new("C14", "C14:not-decryptable", &[("api", apif)], format!("save {}: an independent agile decryptor fails: {:?}", k, e)));
                continue;
            }
            Ok(d) => {
                if !d.hmac_ok {
                    out.violate(Verdict::new("C14", "C14:hmac-mismatch", &[("api", apif)], format!("save {}: the data-integrity HMAC over the encrypted stream does not verify", k)));
                }
                if d.declared_len as usize != package.len() && api == "set_password" {
                    out.violate(Verdict::new("C14", "C14:length-mismatch", &[("api", apif)], format!("save {}: declared length {} but the package has {} bytes", k, d.declared_len, package.len())));
                }
                if api == "set_password" {
                    if d.package != package {
                        let first = d.package.iter().zip(package.iter()).position(|(a, b)| a != b).unwrap_or(d.package.len().min(package.len()));
                        out.violate(Verdict::new(
                            "C14",
                            "C14:plaintext-differs",
                            &[("api", apif)],
                            format!("save {}: decrypted bytes differ from the package ({} vs {} bytes, first difference at offset {})", k, d.package.len(), package.len(), first),
                        ));
                    }
                } else {
                    match decode::decode(&d.package) {
                        Ok(dd) => {
                            if Some(dd.content()) != reference_content {
                                out.violate(Verdict::new("C14", "C14:plaintext-differs", &[("api", apif)], format!("save {}: the decrypted package decodes to different content than an unencrypted save", k)));
                            }
                            if d.declared_len as usize != d.package.len() {
                                out.violate(Verdict::new("C14", "C14:length-mismatch", &[("api", apif)], format!("save {}: declared length {} exceeds the decrypted stream", k, d.declared_len)));
                            }
                        }
                        Err(e) => out.violate(Verdict::new("C14", "C14:plaintext-differs", &[("api", apif)], format!("save {}: the decrypted package is not a valid xlsx: {}", k, e))),
                    }
                }
                // parameters as the standard / the property state them
                let i = &d.info;
                if i.spin != 100_000 || i.pw_key_bits != 256 || i.key_data_key_bits != 256 || i.pw_block_size != 16 || i.key_data_block_size != 16 || i.pw_hash_size != 64 || i.key_data_hash_size != 64 {
                    out.violate(Verdict::new("C14", "C14:parameters", &[("api", apif)], format!("save {}: unexpected agile parameters spin={} keyBits={}/{} block={}/{} hash={}/{}", k, i.spin, i.pw_key_bits, i.key_data_key_bits, i.pw_block_size, i.key_data_block_size, i.pw_hash_size, i.key_data_hash_size)));
                }
                // identity of the random values: each is a draw of *this* save
                let draws = &draws_per_save[k];
                let found: Vec<(&str, &Vec<u8>)> = vec![("keyData salt", &i.key_data_salt), ("password salt", &i.pw_salt), ("package key", &d.package_key), ("verifier input", &d.verifier_input), ("hmac key", &d.hmac_key)];
                let mut used: Vec<usize> = Vec::new();
                for (name, v) in &found {
                    match draws.iter().enumerate().position(|(j, dr)| dr == *v && !used.contains(&j)) {
                        Some(j) => used.push(j),
                        None => {
                            out.violate(Verdict::new(
                                "C14",
                                "C14:not-from-entropy",
                                &[("api", apif), ("value", name)],
                                format!("save {}: the {} found in the file is not one of the {} values drawn from the entropy source during this save (or one draw serves two purposes)", k, name, draws.len()),
                            ));
                        }
                    }
                }
                if draws.len() != 5 {
                    out.probe("draws_per_save_not_5");
                }
                infos.push((i.key_data_salt.clone(), i.pw_salt.clone(), d.package_key.clone(), d.verifier_input.clone()));
                // a different password must fail verification
                match crypto::decrypt(f, &other_password(&password)) {
                    Err(DecErr::WrongPassword) => {}
                    Ok(_) => out.violate(Verdict::new("C14", "C14:wrong-password-accepted", &[("api", apif)], format!("save {}: a different password passes verification", k))),
                    Err(e) => out.violate(Verdict::new("C14", "C14:not-decryptable", &[("api", apif)], format!("save {}: with a wrong password the decryptor fails otherwise than by verifier mismatch: {:?}", k, e))),
                }
            }
        }
    }
    // fresh on every save (meaningful when the entropy source is)
    if mode == "prng" && infos.len() == 2 {
        let (a, b) = (&infos[0], &infos[1]);
        for (name, x, y) in [("keyData salt", &a.0, &b.0), ("password salt", &a.1, &b.1), ("package key", &a.2, &b.2), ("verifier input", &a.3, &b.3)] {
            if x == y {
                out.violate(Verdict::new("C14", "C14:not-fresh", &[("api", apif), ("value", name)], format!("two consecutive saves use the same {}", name)));
            }
        }
        if a.0 == a.1 {
            out.violate(Verdict::new("C14", "C14:not-fresh", &[("api", apif), ("value", "salts")], "the keyData salt and the password salt of one save are the same value".to_string()));
        }
    }
    *out.faults_fired.entry(format!("entropy:{}", mode)).or_insert(0) += draws_per_save.iter().map(|d| d.len() as u64).sum::<u64>();
    out.nontrivial = files.len() == 2;
    out.signature = format!("{}|{}|{}|{}|{}", api, package.len(), crate::rng::fnv(&password), mode, eseed);
    out.record = json!({"package_len": package.len(), "file_len": files.iter().map(|f| f.len()).collect::<Vec<_>>(), "draws": draws_per_save.iter().map(|d| d.iter().map(|x| x.len()).collect::<Vec<_>>()).collect::<Vec<_>>()});
    out
}

// ------------------------------------------------------------------------------------------------
// C15
// ------------------------------------------------------------------------------------------------

fn execute_c15(case: &Value, _scratch: &str) -> Outcome {
    let mut out = Outcome::default();
    let kind = case["kind"].as_str().unwrap_or("sheet").to_string();
    let password = case["password"].as_str().unwrap_or("").to_string();
    let mode = case["entropy"]["mode"].as_str().unwrap_or("prng").to_string();
    let eseed = get_u64(&case["entropy"], "seed");
    let log: Draws = Rc::new(RefCell::new(Vec::new()));
    let src = source(&mode, eseed, log.clone());
    let mut book = umya::new_file();
    book.get_sheet_mut(&0).unwrap().get_cell_mut("A1").set_value_string("x");
    let _ = book.new_sheet("Second");
    let _ = book.new_sheet("Third");
    let kf = kind.as_str();
    let tsheet = case["sheet"].as_u64().unwrap_or(0) as usize % 3;
    // (alg, salt, spin, hash, raw)
    let read_obj = |book: &umya::Spreadsheet, kind: &str, sheet: usize| -> (String, String, u32, String, String) {
        match kind {
            "sheet" => {
                let p = book.get_sheet(&sheet).and_then(|s| s.get_sheet_protection().cloned()).unwrap_or_default();
                (p.get_algorithm_name().to_string(), p.get_salt_value().to_string(), *p.get_spin_count(), p.get_hash_value().to_string(), p.get_password_raw().to_string())
            }
            "workbook" => {
                let p = book.get_workbook_protection().cloned().unwrap_or_default();
                (p.get_workbook_algorithm_name().to_string(), p.get_workbook_salt_value().to_string(), *p.get_workbook_spin_count(), p.get_workbook_hash_value().to_string(), p.get_workbook_password_raw().to_string())
            }
            _ => {
                let p = book.get_workbook_protection().cloned().unwrap_or_default();
                (p.get_revisions_algorithm_name().to_string(), p.get_revisions_salt_value().to_string(), *p.get_revisions_spin_count(), p.get_revisions_hash_value().to_string(), p.get_revisions_password_raw().to_string())
            }
        }
    };
    let read = |book: &umya::Spreadsheet| read_obj(book, kf, tsheet);
    let set_obj = |book: &mut umya::Spreadsheet, kind: &str, sheet: usize, pw: &str| match kind {
        "sheet" => {
            book.get_sheet_mut(&sheet).unwrap().get_sheet_protection_mut().set_password(pw);
        }
        "workbook" => {
            book.get_workbook_protection_mut().set_workbook_password(pw);
        }
        _ => {
            book.get_workbook_protection_mut().set_revisions_password(pw);
        }
    };
    // other protected objects of the same workbook, set before the one under test: each keeps its own triple
    let others: Vec<(String, usize, String)> = case["others"]
        .as_array()
        .cloned()
        .unwrap_or_default()
        .iter()
        .map(|o| (o["kind"].as_str().unwrap_or("sheet").to_string(), o["sheet"].as_u64().unwrap_or(0) as usize % 3, o["password"].as_str().unwrap_or("").to_string()))
        .filter(|(k, sh, _)| !(k == kf && (k != "sheet" || *sh == tsheet)))
        .collect();
    // one entry per object
    let mut seen = std::collections::BTreeSet::new();
    let others: Vec<(String, usize, String)> = others.into_iter().filter(|(k, sh, _)| seen.insert((k.clone(), if k == "sheet" { *sh } else { 0 }))).collect();
    let mut stored = Vec::new();
    if case["legacy_first"].as_bool().unwrap_or(false) {
        // a legacy 16-bit hash attribute was present before (as after loading an old file)
        match kf {
            "sheet" => {
                book.get_sheet_mut(&tsheet).unwrap().get_sheet_protection_mut().set_password_raw("CAFE");
            }
            "workbook" => {
                book.get_workbook_protection_mut().set_workbook_password_raw("CAFE");
            }
            _ => {
                book.get_workbook_protection_mut().set_revisions_password_raw("CAFE");
            }
        }
    }
    let mut others_stored: Vec<(String, String, u32, String, String)> = Vec::new();
    if case["foreign_params_first"].as_bool().unwrap_or(false) {
        // the object was protected by another producer before: other algorithm, other spin count, its own salt/hash
        match kf {
            "sheet" => {
                book.get_sheet_mut(&tsheet).unwrap().get_sheet_protection_mut().set_algorithm_name("SHA-256").set_spin_count(1000).set_salt_value("c2FsdHNhbHRzYWx0c2FsdA==").set_hash_value("aGFzaGhhc2hoYXNoaGFzaGhhc2hoYXNoaGFzaGhhc2g=");
            }
            "workbook" => {
                book.get_workbook_protection_mut().set_workbook_algorithm_name("SHA-256").set_workbook_spin_count(1000).set_workbook_salt_value("c2FsdHNhbHRzYWx0c2FsdA==").set_workbook_hash_value("aGFzaGhhc2hoYXNoaGFzaGhhc2hoYXNoaGFzaGhhc2g=");
            }
            _ => {
                book.get_workbook_protection_mut().set_revisions_algorithm_name("SHA-256").set_revisions_spin_count(1000).set_revisions_salt_value("c2FsdHNhbHRzYWx0c2FsdA==").set_revisions_hash_value("aGFzaGhhc2hoYXNoaGFzaGhhc2hoYXNoaGFzaGhhc2g=");
            }
        }
    }
    let r = guarded(|| {
        umya::verif_hooks::with_entropy(src, || {
            for (k, sh, pw) in &others {
                set_obj(&mut book, k, *sh, pw);
                others_stored.push(read_obj(&book, k, *sh));
            }
            for _ in 0..2 {
                set_obj(&mut book, kf, tsheet, &password);
                stored.push(read(&book));
            }
        })
    });
    if let Err(p) = r {
        out.violate(Verdict::new("C15", "C15:set-password-panics", &[("kind", kf)], p.chars().take(200).collect::<String>()));
        return out;
    }
    let all_draws = log.borrow().clone();
    let draws: Vec<Vec<u8>> = all_draws.iter().skip(others.len()).cloned().collect();
    for (i, (k, sh, pw)) in others.iter().enumerate() {
        out.step("bystanders", 1);
        let now = read_obj(&book, k, *sh);
        if Some(&now) != others_stored.get(i) {
            out.violate(Verdict::new("C15", "C15:bystander-changed", &[("kind", kf), ("other", k.as_str()), ("when", "set")], format!("setting the {} password changed the stored {} protection data of another object (sheet {})", kf, k, sh)));
            continue;
        }
        let ok = crypto::b64dec(&now.1).map(|salt| crypto::protection_hash(pw, &salt, now.2) == now.3).unwrap_or(false);
        if !ok {
            out.violate(Verdict::new("C15", "C15:hash-mismatch", &[("kind", k.as_str()), ("role", "bystander")], format!("the stored {} hash (sheet {}) does not verify for its own password", k, sh)));
        }
    }
    for (k, (alg, salt, spin, hash, raw)) in stored.iter().enumerate() {
        out.step("hashes", 1);
        if alg != "SHA-512" || *spin != 100_000 {
            out.violate(Verdict::new("C15", "C15:parameters", &[("kind", kf)], format!("call {}: algorithm {:?}, spin count {}", k, alg, spin)));
        }
        let salt_bytes = match crypto::b64dec(salt) {
            Some(s) => s,
            None => {
                out.violate(Verdict::new("C15", "C15:hash-mismatch", &[("kind", kf)], format!("call {}: the stored salt is not base64: {:?}", k, salt)));
                continue;
            }
        };
        let expect = crypto::protection_hash(&password, &salt_bytes, *spin);
        if &expect != hash {
            out.violate(Verdict::new("C15", "C15:hash-mismatch", &[("kind", kf)], format!("call {}: the ECMA-376 password hash of the password with the stored salt/spin count is not the stored hash", k)));
        }
        if &crypto::protection_hash(&other_password(&password), &salt_bytes, *spin) == hash {
            out.violate(Verdict::new("C15", "C15:other-password-verifies", &[("kind", kf)], format!("call {}: a different password reproduces the stored hash", k)));
        }
        if draws.get(k) != Some(&salt_bytes) {
            out.violate(Verdict::new("C15", "C15:salt-not-from-entropy", &[("kind", kf)], format!("call {}: the stored salt is not the value drawn from the entropy source by this call", k)));
        }
        if !raw.is_empty() {
            out.violate(Verdict::new("C15", "C15:clear-text", &[("kind", kf), ("where", "model")], format!("call {}: the model still holds a raw password {:?}", k, raw)));
        }
    }
    // seam off: the code between the entropy hook and the operating system (buffering, pooling, caching of
    // random bytes) is outside the simulated source; some runs end with a series of calls that draw from the
    // real source, long enough to exhaust any small pool, and every salt must be a new one. The values are
    // not repeatable and stay out of the record; the verdict is (a collision of 16 honest random bytes has
    // probability 2^-128).
    let os_tail = case["os_tail"].as_u64().unwrap_or(0) as usize;
    if os_tail > 0 {
        let mut b2 = umya::new_file();
        let _ = b2.new_sheet("Second");
        let mut salts: Vec<String> = Vec::new();
        let r = guarded(|| {
            for k in 0..os_tail {
                match k % 4 {
                    0 => {
                        b2.get_sheet_mut(&0).unwrap().get_sheet_protection_mut().set_password(&password);
                        salts.push(b2.get_sheet(&0).unwrap().get_sheet_protection().map(|p| p.get_salt_value().to_string()).unwrap_or_default());
                    }
                    1 => {
                        b2.get_workbook_protection_mut().set_workbook_password(&password);
                        salts.push(b2.get_workbook_protection().map(|p| p.get_workbook_salt_value().to_string()).unwrap_or_default());
                    }
                    2 => {
                        b2.get_sheet_mut(&1).unwrap().get_sheet_protection_mut().set_password(&password);
                        salts.push(b2.get_sheet(&1).unwrap().get_sheet_protection().map(|p| p.get_salt_value().to_string()).unwrap_or_default());
                    }
                    _ => {
                        b2.get_workbook_protection_mut().set_revisions_password(&password);
                        salts.push(b2.get_workbook_protection().map(|p| p.get_revisions_salt_value().to_string()).unwrap_or_default());
                    }
                }
            }
        });
        if r.is_ok() {
            out.step("os_entropy_calls", salts.len() as u64);
            *out.faults_fired.entry("entropy:os".to_string()).or_insert(0) += salts.len() as u64;
            let mut seen: std::collections::BTreeMap<&str, usize> = std::collections::BTreeMap::new();
            for (k, s) in salts.iter().enumerate() {
                if let Some(j) = seen.insert(s.as_str(), k) {
                    out.violate(Verdict::new("C15", "C15:salt-not-fresh", &[("kind", "series"), ("entropy", "os")], format!("call {} of a series of {} protection calls on one thread reuses the salt of call {}", k, os_tail, j)));
                    break;
                }
            }
        }
    }
    if mode == "prng" && stored.len() == 2 && stored[0].1 == stored[1].1 {
        out.violate(Verdict::new("C15", "C15:salt-not-fresh", &[("kind", kf)], "two calls with the same password use the same salt".to_string()));
    }
    if draws.len() != 2 || all_draws.len() != 2 + others.len() {
        out.probe("draws_not_one_per_call");
    }
    // save (chunking irrelevant here), look at the XML, reload
    let before = stored.last().cloned();
    match guarded(|| world::save_mem(&book, case["light"].as_bool().unwrap_or(false))) {
        Ok(Ok(bytes)) => {
            if let Ok(files) = decode::read_zip(&bytes) {
                for (name, data) in &files {
                    if !(name.ends_with(".xml")) {
                        continue;
                    }
                    let text = String::from_utf8_lossy(data);
                    for attr in [" password=", " workbookPassword=", " revisionsPassword="] {
                        if text.contains(attr) {
                            out.violate(Verdict::new("C15", "C15:clear-text", &[("kind", kf), ("where", "file")], format!("{} contains a legacy{} attribute", name, attr.trim_end_matches('='))));
                        }
                    }
                    if !password.is_empty() && password.len() >= 6 && text.contains(&quick_escape(&password)) {
                        out.violate(Verdict::new("C15", "C15:clear-text", &[("kind", kf), ("where", "file")], format!("{} contains the clear password", name)));
                    }
                }
            }
            let lazy_touch = case["lazy_touch"].as_u64();
            let reload = || -> Result<umya::Spreadsheet, String> {
                match lazy_touch {
                    // second generation through a lazily opened workbook with one sheet materialised
                    Some(t) => {
                        let mut lb = world::load_mem(&bytes, false)?;
                        let _ = lb.get_sheet_mut(&((t as usize) % 3));
                        let b2 = world::save_mem(&lb, false)?;
                        world::load_mem(&b2, true)
                    }
                    None => world::load_mem(&bytes, true),
                }
            };
            match guarded(reload) {
                Ok(Ok(b2)) => {
                    let after = read(&b2);
                    if Some(&after) != before.as_ref() {
                        out.violate(Verdict::new("C15", "C15:lost-on-reload", &[("kind", kf)], format!("after save+reload the protection hash data is {:?}, before {:?}", after, before)));
                    }
                    for (i, (k, sh, _)) in others.iter().enumerate() {
                        let a = read_obj(&b2, k, *sh);
                        if Some(&a) != others_stored.get(i) {
                            out.violate(Verdict::new("C15", "C15:lost-on-reload", &[("kind", k.as_str()), ("role", "bystander")], format!("after save+reload the {} protection data of sheet {} is {:?}, before {:?}", k, sh, a, others_stored.get(i))));
                        }
                    }
                }
                _ => out.violate(Verdict::new("C15", "C15:lost-on-reload", &[("kind", kf)], "the saved file cannot be reloaded".to_string())),
            }
        }
        _ => out.violate(Verdict::new("C15", "C15:lost-on-reload", &[("kind", kf)], "save failed".to_string())),
    }
    *out.faults_fired.entry(format!("entropy:{}", mode)).or_insert(0) += draws.len() as u64;
    out.nontrivial = stored.len() == 2;
    out.signature = format!("{}|{}|{}|{}", kind, crate::rng::fnv(&password), mode, eseed);
    out.record = json!({"draws": draws.len()});
    out
}

fn quick_escape(s: &str) -> String {
    s.replace('&', "&amp;").replace('<', "&lt;").replace('>', "&gt;").replace('"', "&quot;")
}

// ------------------------------------------------------------------------------------------------
// generation
// ------------------------------------------------------------------------------------------------

pub fn cases_c14(run_seed: u64, _tier: &str, _scratch: &str) -> Vec<Value> {
    let mut sw = Rng::stream(run_seed, "swarm");
    let mut wl = Rng::stream(run_seed, "workload");
    let mut en = Rng::stream(run_seed, "entropy");
    let mut c = new_case("C14", run_seed);
    let api = ["set_password", "set_password", "write_pw", "write_pw_light"][sw.usize(4)];
    c["api"] = json!(api);
    c["password"] = json!(gen_password(&mut sw));
    let mode = ["prng", "prng", "prng", "prng", "zero", "ff", "repeat", "b64special"][sw.usize(8)];
    c["entropy"] = json!({"mode": mode, "seed": hex64(en.next_u64())});
    if api == "set_password" && sw.chance(4, 5) {
        // package sizes around the 16-byte block and the 4096-byte segment
        let base = [0u64, 1, 15, 16, 17, 4095, 4096, 4097, 8191, 8192, 8193, 12287, 12288, 12289][sw.usize(14)];
        let len = if sw.chance(1, 4) { let big = sw.chance(1, 4); let n = 1 + sw.below(if big { 40 } else { 6 }); n * 4096 + [0u64, 1, 4095, 16, 4080][sw.usize(5)] } else { base };
        c["raw_len"] = json!(len);
        c["ops"] = json!([]);
    } else {
        let n = wl.usize(40);
        let mut ops = Vec::new();
        for i in 0..n {
            ops.push(Op::SetText { sheet: 0, cell: format!("{}{}", (b'A' + (i % 6) as u8) as char, 1 + i / 6), v: format!("v{}:{}", i, world::gen_text(&mut wl, sw.usize(4), 4)) });
        }
        c["ops"] = serde_json::to_value(&ops).unwrap();
    }
    vec![c]
}

pub fn cases_c15(run_seed: u64, _tier: &str, _scratch: &str) -> Vec<Value> {
    let mut sw = Rng::stream(run_seed, "swarm");
    let mut en = Rng::stream(run_seed, "entropy");
    let mut c = new_case("C15", run_seed);
    c["kind"] = json!(["sheet", "workbook", "revisions"][sw.usize(3)]);
    c["password"] = json!(gen_password(&mut sw));
    let mode = ["prng", "prng", "prng", "zero", "ff", "b64special"][sw.usize(6)];
    c["entropy"] = json!({"mode": mode, "seed": hex64(en.next_u64())});
    c["light"] = json!(sw.chance(1, 3));
    c["legacy_first"] = json!(sw.chance(1, 3));
    c["sheet"] = json!(sw.usize(3));
    c["foreign_params_first"] = json!(sw.chance(1, 4));
    if sw.chance(1, 2) {
        let n = 1 + sw.usize(3);
        let mut others: Vec<Value> = Vec::new();
        for _ in 0..n {
            let k = ["sheet", "sheet", "workbook", "revisions"][sw.usize(4)];
            let sh = sw.usize(3);
            let pw = if sw.chance(1, 3) { c["password"].clone() } else { json!(gen_password(&mut sw)) };
            others.push(json!({"kind": k, "sheet": sh, "password": pw}));
        }
        c["others"] = json!(others);
    }
    if sw.chance(1, 4) {
        c["lazy_touch"] = json!(sw.usize(3));
    }
    // one run in eight: a series of calls on the real entropy source (a stream of its own)
    let mut ot = Rng::stream(run_seed, "os_tail");
    if ot.chance(1, 8) {
        c["os_tail"] = json!(18 + ot.usize(30));
    }
    vec![c]
}
