//! C04 — re-saving is stable: no drift, no loss of untouched content. The quantifier is over
//! *histories* of save/load generations (persist/restart cycles) and over "saving the same unchanged
//! workbook twice" (side effects of a save on shared state). The simulator owns the generation count,
//! the alternation of save flavours, the hash seed of every generation (each generation runs on its
//! own OS thread with its own std hash keys) and the reader's chunking.

use crate::annot;
use crate::c06;
use crate::c11::{self, SimSource};
use crate::decode;
use crate::engine::*;
use crate::rng::Rng;
use crate::world::{self, Op};
use serde_json::{json, Value};
use umya_spreadsheet as umya;

/// run `f` on a fresh OS thread whose std hash keys derive from `seed`
fn with_hash_seed<R: Send + 'static>(seed: u64, f: impl FnOnce() -> R + Send + 'static) -> Result<R, String> {
    std::thread::Builder::new()
        .stack_size(64 << 20)
        .spawn(move || {
            crate::shim::set_thread_hash_seed(seed);
            guarded(f)
        })
        .map_err(|e| e.to_string())?
        .join()
        .map_err(|_| "generation thread died".to_string())?
}

/// semantic projection (what the library models, through public getters)
fn project(book: &umya::Spreadsheet) -> Value {
    let mut v = annot::annot_dump(book);
    // effective formatting: a cell whose style equals the workbook's default cell style (cellXfs[0]) looks
    // exactly like a cell without a style index, whichever way it is stored
    let dflt = guarded(|| world::style_fp(&umya::verif_hooks::default_cell_style(book))).unwrap_or_default();
    let mut styled: Vec<Value> = book.get_sheet_collection_no_check().iter().map(|s| world::dump_sheet(s, true)["cells"].clone()).collect();
    for cells in styled.iter_mut() {
        if let Some(m) = cells.as_object_mut() {
            let mut drop = Vec::new();
            for (k, c) in m.iter_mut() {
                if c["s"].as_str() == Some(dflt.as_str()) {
                    c["s"] = json!("");
                }
                let blank = c["v"].as_str().map(|x| x.is_empty()).unwrap_or(true) && c["f"].as_str().map(|x| x.is_empty()).unwrap_or(true) && c["h"].is_null();
                if blank && c["s"].as_str() == Some("") {
                    drop.push(k.clone());
                }
            }
            for k in drop {
                m.remove(&k);
            }
        }
    }
    // (the same holds for the style of a row or column record)
    let eff = |st: &umya::Style| -> String {
        let f = world::style_fp(st);
        if f == dflt {
            String::new()
        } else {
            f
        }
    };
    // row and column dimensions that carry a setting
    let dims: Vec<Value> = book
        .get_sheet_collection_no_check()
        .iter()
        .map(|ws| {
            let mut rows: Vec<Value> = ws
                .get_row_dimensions()
                .iter()
                .filter(|r| *r.get_height() != 0.0 || *r.get_hidden() || *r.get_thick_bot() || *r.get_custom_height() || !eff(r.get_style()).is_empty())
                .map(|r| json!([r.get_row_num(), r.get_height(), r.get_custom_height(), r.get_hidden(), r.get_thick_bot(), eff(r.get_style())]))
                .collect();
            rows.sort_by_key(|x| x[0].as_u64());
            // get_cell_mut materialises a column dimension with the library's default width (8.38) for the
            // column it touches; such an entry is not a setting
            let mut cols: Vec<Value> = ws
                .get_column_dimensions()
                .iter()
                .filter(|c| *c.get_width() != 8.38 || *c.get_hidden() || *c.get_best_fit() || !eff(c.get_style()).is_empty())
                .map(|c| json!([c.get_col_num(), c.get_width(), c.get_hidden(), eff(c.get_style()), c.get_best_fit()]))
                .collect();
            cols.sort_by_key(|x| x[0].as_u64());
            // tables with everything they carry (columns, totals row label/function, style info)
            let tables: Vec<String> = ws
                .get_tables()
                .iter()
                .map(|t| {
                    let cols: Vec<String> = t.get_columns().iter().map(|c| format!("{}|{}|{:?}|{}", c.get_name(), c.get_totals_row_label().unwrap_or(""), c.get_totals_row_function(), c.get_calculated_column_formula().map(|s| s.as_str()).unwrap_or(""))).collect();
                    format!("{}|{}|{:?}|{}|{}|{:?}|{:?}", t.get_name(), t.get_display_name(), t.get_area(), t.get_totals_row_shown(), t.get_totals_row_count(), cols, t.get_style_info().map(|s| s.get_name().to_string()))
                })
                .collect();
            // pictures: where, under which name, which bytes
            let mut images: Vec<String> = ws.get_image_collection().iter().map(|i| format!("{}|{}|{}", i.get_coordinate(), i.get_image_name(), world::h_bytes(i.get_image_data()))).collect();
            images.sort();
            json!({"rows": rows, "cols": cols, "tables": tables, "images": images})
        })
        .collect();
    if let Some(sheets) = v["sheets"].as_array_mut() {
        for (i, s) in sheets.iter_mut().enumerate() {
            s["cells"] = styled[i].clone();
            s["dims"] = dims[i].clone();
        }
    }
    v["book"] = book_level(book);
    v
}

/// workbook-level records the library models: document properties, theme, workbook view, macro payload
fn book_level(book: &umya::Spreadsheet) -> Value {
    // through the getters: an absent element and an empty one are the same property value
    let p = book.get_properties();
    let custom: Vec<String> = p.get_custom_properties().get_custom_document_property_list().iter().map(|c| format!("{}={}|{}", c.get_name(), c.get_value(), c.get_link_target())).collect();
    let props = json!([p.get_creator(), p.get_last_modified_by(), p.get_created(), p.get_modified(), p.get_title(), p.get_description(), p.get_subject(), p.get_keywords(), p.get_revision(), p.get_category(), p.get_version(), p.get_manager(), p.get_company(), custom]);
    json!({
        "properties": props,
        "theme": world::h_bytes(format!("{:?}", book.get_theme()).as_bytes()),
        "view": format!("{:?}", book.get_workbook_view()),
        "macros": book.get_macros_code().map(world::h_bytes),
        "code_name": book.get_code_name(),
    })
}

/// deep projection for the fixed-point comparison between generations
fn project_deep(book: &umya::Spreadsheet) -> Value {
    let sheets: Vec<Value> = book.get_sheet_collection_no_check().iter().map(world::dump_sheet_deep).collect();
    let a = annot::annot_dump(book);
    json!({"sheets": sheets, "annot": a, "book": book_level(book)})
}

struct Gen {
    /// (sheet index, coordinate) the edit resolved to
    edited: Option<(usize, String)>,
    bytes: Vec<u8>,
    p: Value,
    deep: Value,
    d: Option<decode::Decoded>,
}

/// one generation: load `input` (through a chunking source), optionally edit, save with `light`
/// A single-cell edit: what to write and how the target cell is picked in the loaded workbook
/// ("fresh": the given coordinate; "existing": the nth existing cell; "formula": the nth formula cell).
#[derive(Clone, Debug, serde::Serialize, serde::Deserialize)]
pub struct Edit {
    pub kind: String,
    pub v: String,
    pub sheet: usize,
    pub pick: String,
    pub nth: usize,
    pub cell: String,
}

fn apply_edit(book: &mut umya::Spreadsheet, e: &Edit) -> Option<(usize, String)> {
    let n = book.get_sheet_count();
    if n == 0 {
        return None;
    }
    let si = e.sheet % n;
    let ws = book.get_sheet_mut(&si)?;
    let mut coords: Vec<(u32, u32, bool)> = ws
        .get_cell_collection()
        .iter()
        .map(|c| (*c.get_coordinate().get_row_num(), *c.get_coordinate().get_col_num(), !c.get_formula().is_empty()))
        .collect();
    coords.sort();
    let cell = match e.pick.as_str() {
        "existing" if !coords.is_empty() => {
            let c = coords[e.nth % coords.len()];
            umya::helper::coordinate::coordinate_from_index(&c.1, &c.0)
        }
        "formula" if coords.iter().any(|c| c.2) => {
            let f: Vec<&(u32, u32, bool)> = coords.iter().filter(|c| c.2).collect();
            let c = f[e.nth % f.len()];
            umya::helper::coordinate::coordinate_from_index(&c.1, &c.0)
        }
        _ => e.cell.clone(),
    };
    let c = ws.get_cell_mut(cell.as_str());
    match e.kind.as_str() {
        "num" => {
            c.set_value_number(e.v.parse::<f64>().unwrap_or(1.0));
        }
        "formula" => {
            c.set_formula(e.v.clone());
        }
        _ => {
            c.set_value_string(e.v.clone());
        }
    }
    Some((si, cell))
}

fn generation(input: Vec<u8>, light: bool, hash_seed: u64, chunk: usize, edit: Option<Edit>) -> Result<Gen, String> {
    with_hash_seed(hash_seed, move || -> Result<Gen, String> {
        let mut src = SimSource::new(input, hash_seed ^ 0x5555, chunk);
        let mut book = umya::reader::xlsx::read_reader(&mut src, true).map_err(|e| format!("load failed: {:?}", e))?;
        let mut edited = None;
        if let Some(e) = &edit {
            edited = apply_edit(&mut book, e);
        }
        let bytes = world::save_mem(&book, light)?;
        // what this generation's file shows when loaded again
        let again = world::load_mem(&bytes, true)?;
        Ok(Gen { edited, p: project(&again), deep: project_deep(&again), d: decode::decode(&bytes).ok(), bytes })
    })?
}

fn diff_summary(a: &Value, b: &Value) -> String {
    let mut d = Vec::new();
    world::diff_keys(a, b, "", &mut d);
    d.iter().take(3).cloned().collect::<Vec<_>>().join("; ")
}

fn first_key(a: &Value, b: &Value) -> String {
    let mut d = Vec::new();
    world::diff_keys(a, b, "", &mut d);
    // the annotation/collection kind that differs: the path element after /sheets/<i>/ (or the top key)
    d.first()
        .map(|s| {
            let p: Vec<&str> = s.split(':').next().unwrap_or("").split('/').filter(|x| !x.is_empty()).collect();
            let p: Vec<&str> = p.into_iter().filter(|x| x.parse::<usize>().is_err() && *x != "sheets" && *x != "annot").collect();
            p.first().map(|x| x.split(' ').next().unwrap_or("").to_string()).unwrap_or("?".into())
        })
        .unwrap_or("?".into())
}

pub fn execute(case: &Value, _scratch: &str) -> Outcome {
    let mut out = Outcome::default();
    let src_kind = case["source"]["kind"].as_str().unwrap_or("generated").to_string();
    let input = if src_kind == "corpus" {
        match c11::source_bytes(case) {
            Ok(b) => b,
            Err(e) => {
                out.harness_error = Some(e);
                return out;
            }
        }
    } else {
        c06::count_ops(case, &mut out);
        match guarded(|| world::save_mem(&c06::build(case), false)) {
            Ok(Ok(b)) => b,
            _ => {
                out.probe("build_or_first_save_fails");
                return out;
            }
        }
    };
    let gens = case["generations"].as_u64().unwrap_or(3) as usize;
    let flavours: Vec<bool> = case["flavours"].as_array().cloned().unwrap_or_default().iter().map(|v| v.as_bool().unwrap_or(false)).collect();
    let seeds: Vec<u64> = case["gen_hash_seeds"].as_array().cloned().unwrap_or_default().iter().map(|v| get_u64(&json!({ "x": v }), "x")).collect();
    let chunk = case["chunk"].as_u64().unwrap_or(0) as usize;
    let edit: Option<Edit> = serde_json::from_value(case["edit"].clone()).ok();
    let facet_src = src_kind.as_str();

    // what the original shows
    let p_orig = match with_hash_seed(seeds.first().cloned().unwrap_or(1) ^ 0x77, {
        let input = input.clone();
        move || world::load_mem(&input, true).map(|b| project(&b))
    }) {
        Ok(Ok(p)) => p,
        _ => {
            out.probe("source_unreadable");
            return out;
        }
    };
    // the unedited chain
    let mut chain: Vec<Gen> = Vec::new();
    let mut cur = input.clone();
    for g in 0..gens {
        let light = flavours.get(g).cloned().unwrap_or(false);
        let seed = seeds.get(g).cloned().unwrap_or(g as u64 + 1);
        match generation(cur.clone(), light, seed, chunk, None) {
            Ok(gen) => {
                cur = gen.bytes.clone();
                chain.push(gen);
            }
            Err(e) => {
                out.violate(Verdict::new("C04", "C04:generation-fails", &[("source", facet_src), ("generation", &(g + 1).to_string())], format!("generation {} failed: {}", g + 1, e.chars().take(300).collect::<String>())));
                break;
            }
        }
    }
    out.step("generations", chain.len() as u64);
    if chain.is_empty() {
        return out;
    }
    // orig ~ gen1 under the semantic projection
    if p_orig != chain[0].p {
        out.violate(Verdict::new(
            "C04",
            "C04:first-resave-changes-content",
            &[("source", facet_src), ("kind", &first_key(&p_orig, &chain[0].p))],
            format!("content of the original and of its first re-save differ: {}", diff_summary(&p_orig, &chain[0].p)),
        ));
    }
    // the same judged without the library's reader on either side: the reader may read the original and its
    // re-save through the same mistake (a cached text result "007" guessed to be a number both times)
    if src_kind != "corpus" {
        if let (Ok(d0), Some(d1)) = (decode::decode(&input), &chain[0].d) {
            out.step("independent_orig_vs_gen1", 1);
            // a cell element without value and formula carries formatting only; formatting is judged on the
            // effective styles above, not here
            let strip = |mut v: Value| -> Value {
                if let Some(sheets) = v["sheets"].as_array_mut() {
                    for s in sheets {
                        if let Some(cells) = s["cells"].as_object_mut() {
                            cells.retain(|_, c| !(c[0].as_str() == Some("n") && c[1].as_str() == Some("") && c[2].is_null()));
                        }
                    }
                }
                v
            };
            let (a, b) = (strip(d0.content()), strip(d1.content()));
            if a != b {
                out.violate(Verdict::new(
                    "C04",
                    "C04:first-resave-changes-content",
                    &[("source", facet_src), ("kind", &first_key(&a, &b)), ("via", "decoder")],
                    format!("the original file and its first re-save decode (independently of the library) to different content: {}", diff_summary(&a, &b)),
                ));
            }
        }
    }
    // fixed point: gen1 == gen2 == gen3 ...
    for g in 1..chain.len() {
        if chain[g].deep != chain[0].deep {
            out.violate(Verdict::new(
                "C04",
                "C04:drift",
                &[("source", facet_src), ("kind", &first_key(&chain[0].deep, &chain[g].deep))],
                format!("generation {} differs from generation 1 (getter projection): {}", g + 1, diff_summary(&chain[0].deep, &chain[g].deep)),
            ));
            break;
        }
        match (&chain[0].d, &chain[g].d) {
            (Some(a), Some(b)) => {
                if a.content() != b.content() {
                    out.violate(Verdict::new("C04", "C04:drift", &[("source", facet_src), ("kind", "decoded-content")], format!("generation {} decodes differently from generation 1", g + 1)));
                    break;
                }
                let sa = (a.shared_strings.len(), a.n_cell_xfs, a.n_fonts, a.n_fills, a.n_borders, a.n_num_fmts, a.n_dxfs);
                let sb = (b.shared_strings.len(), b.n_cell_xfs, b.n_fonts, b.n_fills, b.n_borders, b.n_num_fmts, b.n_dxfs);
                if sa != sb {
                    out.violate(Verdict::new(
                        "C04",
                        "C04:table-growth",
                        &[("source", facet_src)],
                        format!("sizes of (sharedStrings, cellXfs, fonts, fills, borders, numFmts, dxfs) are {:?} in generation 1 and {:?} in generation {}", sa, sb, g + 1),
                    ));
                    break;
                }
                if a.parts != b.parts {
                    out.violate(Verdict::new("C04", "C04:drift", &[("source", facet_src), ("kind", "part-list")], format!("part list of generation {} differs from generation 1", g + 1)));
                    break;
                }
            }
            _ => {
                out.violate(Verdict::new("C04", "C04:generation-fails", &[("source", facet_src), ("generation", &(g + 1).to_string())], "a generation's file does not decode".to_string()));
                break;
            }
        }
    }
    // saving the same unchanged workbook twice: same parts, same content
    let twice = with_hash_seed(seeds.last().cloned().unwrap_or(9) ^ 0x99, {
        let input = input.clone();
        move || -> Result<(Vec<u8>, Vec<u8>), String> {
            let book = world::load_mem(&input, true)?;
            Ok((world::save_mem(&book, false)?, world::save_mem(&book, false)?))
        }
    });
    if let Ok(Ok((a, b))) = twice {
        match (decode::decode(&a), decode::decode(&b)) {
            (Ok(da), Ok(db)) => {
                if da.parts != db.parts || da.content() != db.content() || da.shared_strings != db.shared_strings {
                    out.violate(Verdict::new("C04", "C04:second-save-differs", &[("source", facet_src)], "saving the same unchanged workbook twice gives different parts or content".to_string()));
                }
                if a != b {
                    out.probe("two_saves_not_byte_identical");
                }
            }
            _ => out.violate(Verdict::new("C04", "C04:generation-fails", &[("source", facet_src), ("generation", "twice")], "a save of the loaded workbook does not decode".to_string())),
        }
    }
    // a single-cell edit changes nothing else ("for every single-cell edit": several are tried, each on its own)
    let mut edits: Vec<Edit> = edit.into_iter().collect();
    edits.extend(serde_json::from_value::<Vec<Edit>>(case["more_edits"].clone()).unwrap_or_default());
    for e in edits {
        let seed = seeds.first().cloned().unwrap_or(1);
        match generation(input.clone(), flavours.first().cloned().unwrap_or(false), seed, chunk, Some(e.clone())) {
            Ok(e1) => {
                if let Some((si, cell)) = e1.edited.clone() {
                    let mut pa = chain[0].p.clone();
                    let mut pb = e1.p.clone();
                    let had = pa["sheets"][si]["cells"].get(&cell).is_some();
                    for p in [&mut pa, &mut pb] {
                        if let Some(c) = p["sheets"][si]["cells"].as_object_mut() {
                            c.remove(&cell);
                        }
                    }
                    if pa != pb {
                        out.violate(Verdict::new(
                            "C04",
                            "C04:edit-changes-other-content",
                            &[("source", facet_src), ("kind", &first_key(&pa, &pb)), ("edit", &e.kind)],
                            format!("editing {} on sheet {} ({} edit) changed something else in the saved result: {}", cell, si, e.kind, diff_summary(&pa, &pb)),
                        ));
                    }
                    let key = if e.kind == "formula" { "f" } else { "v" };
                    let got = e1.p["sheets"][si]["cells"][&cell][key].as_str().unwrap_or("").to_string();
                    let same = if e.kind == "num" { got.parse::<f64>().ok() == e.v.parse::<f64>().ok() } else { got == e.v };
                    if !same {
                        out.violate(Verdict::new("C04", "C04:edit-lost", &[("source", facet_src), ("edit", &e.kind)], format!("the edited cell {} holds {:?} after save+reload, expected {:?}", cell, got, e.v)));
                    }
                    if had {
                        out.probe("edit_overwrote_existing_cell");
                    }
                    if had && !chain[0].p["sheets"][si]["cells"][&cell]["f"].as_str().unwrap_or("").is_empty() {
                        out.probe("edit_overwrote_formula_cell");
                    }
                }
                out.step("generations", 1);
            }
            Err(err) => out.violate(Verdict::new("C04", "C04:generation-fails", &[("source", facet_src), ("generation", "edit")], err.chars().take(300).collect::<String>())),
        }
    }
    out.nontrivial = chain.len() >= 2;
    out.signature = format!("{:x}|{}|{}", crate::rng::fnv(&format!("{}{}", case["source"], case["steps"])), case["flavours"], case["gen_hash_seeds"]);
    out.record = json!({"sizes": chain.iter().map(|g| g.bytes.len()).collect::<Vec<_>>()});
    out
}

pub fn cases(run_seed: u64, tier: &str, _scratch: &str) -> Vec<Value> {
    let mut sw = Rng::stream(run_seed, "swarm");
    let mut wl = Rng::stream(run_seed, "workload");
    let mut hs = Rng::stream(run_seed, "hashseed");
    let mut gens = if tier == "thorough" { 5 } else { 3 };
    let files = c11::corpus_files();
    let mut c = new_case("C04", run_seed);
    let picked = if sw.chance(1, 3) { c11::pick_corpus_file(&mut sw, tier) } else { None };
    if let Some(f) = picked {
        // the heavy corpus files cost minutes and gigabytes per generation chain
        if c11::file_cost(&f) == 2 {
            gens = 3;
        }
        c["source"] = json!({"kind": "corpus", "file": f});
    } else {
        let sheets = 1 + sw.usize(4);
        let n = 2 + wl.usize(if sw.chance(1, 4) { 60 } else { 20 });
        let steps = c06::gen_steps(&mut sw, &mut wl, sheets, n);
        c["source"] = json!({"kind": "generated"});
        c["sheets"] = json!(sheets);
        c["steps"] = serde_json::to_value(&steps).unwrap();
    }
    c["generations"] = json!(gens);
    c["flavours"] = json!((0..gens).map(|_| sw.chance(1, 3)).collect::<Vec<_>>());
    c["gen_hash_seeds"] = json!((0..gens).map(|_| hex64(hs.next_u64())).collect::<Vec<_>>());
    c["chunk"] = json!([0u64, 0, 3, 64, 4096][sw.usize(5)]);
    if sw.chance(3, 4) {
        let cell = if sw.chance(1, 2) { world::gen_cell(&mut wl, 17) } else { format!("{}{}", ["F", "H", "K", "AB"][wl.usize(4)], 1 + wl.below(60)) };
        let kind = ["text", "text", "num", "formula"][sw.usize(4)];
        let v = match kind {
            "num" => format!("{}", wl.below(100000) as f64 / 8.0),
            "formula" => format!("{}+{}", 1 + wl.below(9), 1 + wl.below(9)),
            _ => format!("edit:{}", world::gen_text(&mut wl, sw.usize(4), 3)),
        };
        let e = Edit { kind: kind.to_string(), v, sheet: wl.usize(4), pick: ["fresh", "existing", "formula", "formula"][sw.usize(4)].to_string(), nth: wl.usize(10_000), cell };
        c["edit"] = serde_json::to_value(&e).unwrap();
        // further edits on existing cells, each applied to a fresh load of the same file (cheap files only)
        let cheap = c["source"]["kind"] == "generated" || c11::file_cost(c["source"]["file"].as_str().unwrap_or("")) == 0;
        if cheap {
            let n_more = if tier == "thorough" { 8 } else { 4 };
            let more: Vec<Edit> = (0..n_more)
                .map(|k| {
                    let kind = ["num", "text", "num", "formula"][k % 4];
                    let v = match kind {
                        "num" => format!("{}", 1000 + wl.below(1000)),
                        "formula" => format!("{}+{}", 1 + wl.below(9), 1 + wl.below(9)),
                        _ => format!("edit{}:{}", k, world::gen_text(&mut wl, sw.usize(4), 2)),
                    };
                    Edit { kind: kind.to_string(), v, sheet: wl.usize(4), pick: "existing".to_string(), nth: wl.usize(10_000), cell: "A1".to_string() }
                })
                .collect();
            c["more_edits"] = serde_json::to_value(&more).unwrap();
        }
    }
    vec![c]
}
