//! Shared workload vocabulary: serialisable operations against the public API, applied leniently
//! (an operation whose handle or sheet does not exist is skipped, so that minimisation may drop any
//! subset of steps), plus the public-getter projection used by differential oracles.

use crate::rng::Rng;
use serde::{Deserialize, Serialize};
use serde_json::{json, Value};
use std::collections::BTreeMap;
use umya_spreadsheet as umya;
use umya_spreadsheet::Spreadsheet;

#[derive(Clone, Debug, Serialize, Deserialize, PartialEq)]
#[serde(tag = "op", rename_all = "snake_case")]
pub enum Op {
    SetText { sheet: usize, cell: String, v: String },
    SetRich { sheet: usize, cell: String, parts: Vec<String> },
    SetNum { sheet: usize, cell: String, v: f64 },
    SetBool { sheet: usize, cell: String, v: bool },
    SetFormula { sheet: usize, cell: String, f: String, result: String },
    SetBlank { sheet: usize, cell: String },
    RemoveCell { sheet: usize, cell: String },
    Bold { sheet: usize, cell: String },
    NumFmt { sheet: usize, cell: String, code: String },
    FillColor { sheet: usize, cell: String, argb: String },
    NewSheet { name: String },
    RemoveSheet {
        sheet: usize,
        /// through remove_sheet_by_name instead of remove_sheet(index)
        #[serde(default)]
        by_name: bool,
    },
    RenameSheet { sheet: usize, name: String },
    SetActive { sheet: usize },
    SetState { sheet: usize, state: String },
    Hyperlink { sheet: usize, cell: String, url: String, location: bool, tooltip: String },
    Comment { sheet: usize, cell: String, author: String, text: String },
    Merge { sheet: usize, range: String },
    DefinedName { sheet: usize, name: String, address: String },
    LocalName { sheet: usize, name: String, address: String },
    SheetRemoveRow { sheet: usize, row: u32, n: u32 },
    SheetRemoveCol { sheet: usize, col: u32, n: u32 },
    SheetInsertRow { sheet: usize, row: u32, n: u32 },
    SheetInsertCol { sheet: usize, col: u32, n: u32 },
    BookInsertRow { sheet: usize, row: u32, n: u32 },
    BookRemoveCol { sheet: usize, col: u32, n: u32 },
    ColWidth {
        sheet: usize,
        col: u32,
        w: f64,
        #[serde(default)]
        best_fit: bool,
    },
    /// copy_range / move_range: the cells of `range` pasted `rows` down and `cols` right
    CopyRange { sheet: usize, range: String, rows: i32, cols: i32, mv: bool },
    /// materialise every sheet (read_sheet_collection)
    ReadAllSheets,
    RowHeight { sheet: usize, row: u32, h: f64 },
    Table { sheet: usize, name: String, top: u32 },
    CommentRich { sheet: usize, cell: String, author: String, parts: Vec<String> },
    /// assorted cell formatting: k selects italic / font colour / size+name / border / alignment / wrap
    Format { sheet: usize, cell: String, k: u8 },
    HideRow { sheet: usize, row: u32 },
    HideCol { sheet: usize, col: u32 },
    ClearComments { sheet: usize },
    SetMacros { on: bool },
    EditComment { sheet: usize, nth: usize, text: String },
    RowStyle { sheet: usize, row: u32, k: u8 },
    ColStyle { sheet: usize, col: u32, k: u8 },
    Image { sheet: usize, cell: String, name: String, blue: bool },
    /// the same characters twice: as rich text (two runs, the second bold) in one cell and as plain text in another
    Twin { sheet: usize, cell: String, other_sheet: usize, other_cell: String, text: String },
    /// a sheet or workbook annotation (conditional format, validation, ...), see annot.rs
    Annot { a: crate::annot::AOp },
}

impl Op {
    pub fn name(&self) -> &'static str {
        match self {
            Op::SetText { .. } => "set_text",
            Op::SetRich { .. } => "set_rich",
            Op::SetNum { .. } => "set_num",
            Op::SetBool { .. } => "set_bool",
            Op::SetFormula { .. } => "set_formula",
            Op::SetBlank { .. } => "set_blank",
            Op::RemoveCell { .. } => "remove_cell",
            Op::Bold { .. } => "bold",
            Op::NumFmt { .. } => "num_fmt",
            Op::FillColor { .. } => "fill_color",
            Op::NewSheet { .. } => "new_sheet",
            Op::RemoveSheet { .. } => "remove_sheet",
            Op::RenameSheet { .. } => "rename_sheet",
            Op::SetActive { .. } => "set_active",
            Op::SetState { .. } => "set_state",
            Op::Hyperlink { .. } => "hyperlink",
            Op::Comment { .. } => "comment",
            Op::Merge { .. } => "merge",
            Op::DefinedName { .. } => "defined_name",
            Op::LocalName { .. } => "local_name",
            Op::SheetRemoveRow { .. } => "sheet_remove_row",
            Op::SheetRemoveCol { .. } => "sheet_remove_col",
            Op::SheetInsertRow { .. } => "sheet_insert_row",
            Op::SheetInsertCol { .. } => "sheet_insert_col",
            Op::BookInsertRow { .. } => "book_insert_row",
            Op::BookRemoveCol { .. } => "book_remove_col",
            Op::ColWidth { .. } => "col_width",
            Op::CopyRange { .. } => "copy_range",
            Op::ReadAllSheets => "read_all_sheets",
            Op::RowHeight { .. } => "row_height",
            Op::Table { .. } => "table",
            Op::CommentRich { .. } => "comment_rich",
            Op::Format { .. } => "format",
            Op::HideRow { .. } => "hide_row",
            Op::HideCol { .. } => "hide_col",
            Op::ClearComments { .. } => "clear_comments",
            Op::SetMacros { .. } => "set_macros",
            Op::EditComment { .. } => "edit_comment",
            Op::RowStyle { .. } => "row_style",
            Op::ColStyle { .. } => "col_style",
            Op::Image { .. } => "image",
            Op::Annot { .. } => "annot",
            Op::Twin { .. } => "twin",
        }
    }
}

fn sheet_mut(book: &mut Spreadsheet, sheet: usize) -> Option<&mut umya::Worksheet> {
    let n = book.get_sheet_count();
    if n == 0 {
        return None;
    }
    book.get_sheet_mut(&(sheet % n))
}

pub const PNG_RED: [u8; 69] = [137, 80, 78, 71, 13, 10, 26, 10, 0, 0, 0, 13, 73, 72, 68, 82, 0, 0, 0, 1, 0, 0, 0, 1, 8, 2, 0, 0, 0, 144, 119, 83, 222, 0, 0, 0, 12, 73, 68, 65, 84, 120, 156, 99, 248, 207, 192, 0, 0, 3, 1, 1, 0, 201, 254, 146, 239, 0, 0, 0, 0, 73, 69, 78, 68, 174, 66, 96, 130];
pub const PNG_BLUE: [u8; 69] = [137, 80, 78, 71, 13, 10, 26, 10, 0, 0, 0, 13, 73, 72, 68, 82, 0, 0, 0, 1, 0, 0, 0, 1, 8, 2, 0, 0, 0, 144, 119, 83, 222, 0, 0, 0, 12, 73, 68, 65, 84, 120, 156, 99, 96, 96, 248, 15, 0, 1, 3, 1, 0, 8, 137, 194, 236, 0, 0, 0, 0, 73, 69, 78, 68, 174, 66, 96, 130];

/// (highest column, highest row) that carries a cell, a comment or a dimension record
fn extent(ws: &umya::Worksheet) -> (u32, u32) {
    let mut c = 0u32;
    let mut r = 0u32;
    for cell in ws.get_cell_collection() {
        c = c.max(*cell.get_coordinate().get_col_num());
        r = r.max(*cell.get_coordinate().get_row_num());
    }
    for cm in ws.get_comments() {
        c = c.max(*cm.get_coordinate().get_col_num());
        r = r.max(*cm.get_coordinate().get_row_num());
    }
    for d in ws.get_row_dimensions() {
        r = r.max(*d.get_row_num());
    }
    for d in ws.get_column_dimensions() {
        c = c.max(*d.get_col_num());
    }
    (c, r)
}

/// Apply one operation through the public API. Returns false if it was skipped.
pub fn apply(book: &mut Spreadsheet, op: &Op) -> bool {
    match op {
        Op::SetText { sheet, cell, v } => sheet_mut(book, *sheet).map(|s| {
            s.get_cell_mut(cell.as_str()).set_value_string(v.clone());
        }),
        Op::SetRich { sheet, cell, parts } => sheet_mut(book, *sheet).map(|s| {
            let mut rt = umya::RichText::default();
            for (i, p) in parts.iter().enumerate() {
                let mut te = umya::TextElement::default();
                te.set_text(p.clone());
                if i % 2 == 1 {
                    te.get_font_mut().set_bold(true);
                }
                rt.add_rich_text_elements(te);
            }
            s.get_cell_mut(cell.as_str()).set_rich_text(rt);
        }),
        Op::SetNum { sheet, cell, v } => sheet_mut(book, *sheet).map(|s| {
            s.get_cell_mut(cell.as_str()).set_value_number(*v);
        }),
        Op::SetBool { sheet, cell, v } => sheet_mut(book, *sheet).map(|s| {
            s.get_cell_mut(cell.as_str()).set_value_bool(*v);
        }),
        Op::SetFormula { sheet, cell, f, result } => sheet_mut(book, *sheet).map(|s| {
            // "s:..." is a cached TEXT result (what Excel stores for =TEXT(..), =LEFT(..), =A1&""), whatever it looks like
            if let Some(text) = result.strip_prefix("s:") {
                s.get_cell_mut(cell.as_str()).set_value_string(text.to_string()).set_formula(f.clone());
            } else {
                s.get_cell_mut(cell.as_str()).set_formula(f.clone()).set_formula_result_default(result.clone());
            }
        }),
        Op::SetBlank { sheet, cell } => sheet_mut(book, *sheet).map(|s| {
            s.get_cell_mut(cell.as_str()).set_blank();
        }),
        Op::RemoveCell { sheet, cell } => sheet_mut(book, *sheet).map(|s| {
            s.remove_cell(cell.as_str());
        }),
        Op::Bold { sheet, cell } => sheet_mut(book, *sheet).map(|s| {
            s.get_style_mut(cell.as_str()).get_font_mut().set_bold(true);
        }),
        Op::NumFmt { sheet, cell, code } => sheet_mut(book, *sheet).map(|s| {
            s.get_style_mut(cell.as_str()).get_number_format_mut().set_format_code(code.clone());
        }),
        Op::FillColor { sheet, cell, argb } => sheet_mut(book, *sheet).map(|s| {
            s.get_style_mut(cell.as_str()).set_background_color(argb.clone());
        }),
        Op::NewSheet { name } => book.new_sheet(name.clone()).ok().map(|_| ()),
        Op::RemoveSheet { sheet, by_name } => {
            let n = book.get_sheet_count();
            if n <= 1 {
                None
            } else {
                let r = if *by_name {
                    let name = book.get_sheet_collection_no_check()[*sheet % n].get_name().to_string();
                    book.remove_sheet_by_name(&name).ok()
                } else {
                    book.remove_sheet(*sheet % n).ok()
                };
                // the caller keeps the active tab inside the sheet list (remove_sheet does not)
                if *book.get_workbook_view().get_active_tab() as usize >= book.get_sheet_count() {
                    book.set_active_sheet(0);
                }
                r
            }
        }
        Op::RenameSheet { sheet, name } => {
            let n = book.get_sheet_count();
            if n == 0 {
                None
            } else {
                book.set_sheet_name(*sheet % n, name.clone()).ok()
            }
        }
        Op::SetActive { sheet } => {
            let n = book.get_sheet_count();
            if n == 0 {
                None
            } else {
                book.set_active_sheet((*sheet % n) as u32);
                Some(())
            }
        }
        Op::SetState { sheet, state } => sheet_mut(book, *sheet).map(|s| {
            s.set_state(match state.as_str() {
                "hidden" => umya::SheetStateValues::Hidden,
                "veryHidden" => umya::SheetStateValues::VeryHidden,
                _ => umya::SheetStateValues::Visible,
            });
        }),
        Op::Hyperlink { sheet, cell, url, location, tooltip } => sheet_mut(book, *sheet).map(|s| {
            let mut h = umya::Hyperlink::default();
            h.set_url(url.clone()).set_location(*location);
            if !tooltip.is_empty() {
                h.set_tooltip(tooltip.clone());
            }
            s.get_cell_mut(cell.as_str()).set_hyperlink(h);
        }),
        Op::Comment { sheet, cell, author, text } => sheet_mut(book, *sheet).map(|s| {
            // a cell carries one comment: setting it again replaces the old one
            s.get_comments_mut().retain(|o| o.get_coordinate().to_string() != *cell);
            let mut c = umya::Comment::default();
            c.new_comment(cell.as_str());
            c.set_author(author.clone());
            c.set_text_string(text.clone());
            s.add_comments(c);
        }),
        Op::Merge { sheet, range } => sheet_mut(book, *sheet).map(|s| {
            s.add_merge_cells(range.clone());
        }),
        Op::DefinedName { sheet, name, address } => sheet_mut(book, *sheet).map(|s| {
            // a defined name designates cells of a sheet: qualify a bare address with this sheet's name
            let a = if address.contains('!') { address.clone() } else { format!("'{}'!{}", s.get_name().replace('\'', "''"), address) };
            let _ = s.add_defined_name(name.clone(), a);
        }),
        Op::LocalName { sheet, name, address } => {
            let n = book.get_sheet_count();
            if n == 0 {
                None
            } else {
                let idx = *sheet % n;
                // "@k!$C$3": the name is scoped to sheet `idx` but designates cells of sheet k
                let mut address = address.clone();
                if let Some(rest) = address.strip_prefix('@') {
                    if let Some((k, tail)) = rest.split_once('!') {
                        let k = k.parse::<usize>().unwrap_or(0) % n;
                        let other = book.get_sheet_collection_no_check()[k].get_name().replace('\'', "''");
                        address = format!("'{}'!{}", other, tail);
                    }
                }
                sheet_mut(book, idx).map(|s| {
                    let a = if address.contains('!') { address.clone() } else { format!("'{}'!{}", s.get_name().replace('\'', "''"), address) };
                    let _ = s.add_defined_name(name.clone(), a);
                    if let Some(d) = s.get_defined_names_mut().last_mut() {
                        d.set_local_sheet_id(idx as u32);
                    }
                })
            }
        }
        Op::SheetRemoveRow { sheet, row, n } => sheet_mut(book, *sheet).map(|s| {
            s.remove_row(row, n);
        }),
        Op::SheetRemoveCol { sheet, col, n } => sheet_mut(book, *sheet).map(|s| {
            s.remove_column_by_index(col, n);
        }),
        // Excel refuses an insertion that would push content off the grid; the library has no error path for
        // it, so the caller must not ask (what then happens is a matter of C07/C08, not of saving)
        Op::SheetInsertCol { sheet, col, n } => sheet_mut(book, *sheet).and_then(|s| {
            if extent(s).0 + *n > 16384 {
                return None;
            }
            s.insert_new_column_by_index(col, n);
            Some(())
        }),
        Op::SheetInsertRow { sheet, row, n } if sheet_mut(book, *sheet).map(|s| extent(s).1 + *n > 1_048_576).unwrap_or(true) => {
            let _ = (row, n);
            None
        }
        Op::SheetInsertRow { sheet, row, n } => sheet_mut(book, *sheet).map(|s| {
            s.insert_new_row(row, n);
        }),
        Op::BookInsertRow { sheet, row, n } => {
            let cnt = book.get_sheet_count();
            if cnt == 0 {
                None
            } else {
                book.read_sheet_collection();
                let name = book.get_sheet_collection_no_check()[*sheet % cnt].get_name().to_string();
                book.insert_new_row(&name, row, n);
                Some(())
            }
        }
        Op::BookRemoveCol { sheet, col, n } => {
            let cnt = book.get_sheet_count();
            if cnt == 0 {
                None
            } else {
                book.read_sheet_collection();
                let name = book.get_sheet_collection_no_check()[*sheet % cnt].get_name().to_string();
                book.remove_column_by_index(&name, col, n);
                Some(())
            }
        }
        Op::ColWidth { sheet, col, w, best_fit } => sheet_mut(book, *sheet).map(|s| {
            s.get_column_dimension_by_number_mut(col).set_width(*w).set_best_fit(*best_fit);
        }),
        Op::CopyRange { sheet, range, rows, cols, mv } => sheet_mut(book, *sheet).map(|s| {
            if *mv {
                s.move_range(range, rows, cols);
            } else {
                s.copy_range(range, rows, cols);
            }
        }),
        Op::ReadAllSheets => {
            book.read_sheet_collection();
            Some(())
        }
        Op::RowHeight { sheet, row, h } => sheet_mut(book, *sheet).map(|s| {
            s.get_row_dimension_mut(row).set_height(*h);
        }),
        Op::Format { sheet, cell, k } => sheet_mut(book, *sheet).map(|s| {
            let st = s.get_style_mut(cell.as_str());
            match k % 16 {
                0 => {
                    st.get_font_mut().set_italic(true);
                }
                7 => {
                    st.get_font_mut().set_charset(128).set_family(3).set_scheme("minor");
                }
                8 => {
                    let mut b = umya::Border::default();
                    b.set_border_style(umya::Border::BORDER_DASHED);
                    b.get_color_mut().set_argb("FF00AA00");
                    st.get_borders_mut().set_diagonal(b);
                    st.get_borders_mut().set_diagonal_up(true);
                }
                9 => {
                    st.get_alignment_mut().set_text_rotation(45);
                }
                10 => {
                    let mut p = umya::Protection::default();
                    p.set_locked(false);
                    p.set_hidden(true);
                    st.set_protection(p);
                }
                11 => {
                    let mut pf = umya::PatternFill::default();
                    pf.set_pattern_type(umya::PatternValues::DarkGrid);
                    let mut c = umya::Color::default();
                    c.set_theme_index(4);
                    c.set_tint(0.399975585192419);
                    pf.set_foreground_color(c);
                    let mut c2 = umya::Color::default();
                    c2.set_argb("FFFFEE00");
                    pf.set_background_color(c2);
                    let mut f = umya::Fill::default();
                    f.set_pattern_fill(pf);
                    st.set_fill(f);
                }
                12 => {
                    let mut g = umya::GradientFill::default();
                    g.set_degree(90.0);
                    for (pos, argb) in [(0.0, "FFFF0000"), (1.0, "FF0000FF")] {
                        let mut stop = umya::GradientStop::default();
                        stop.set_position(pos);
                        stop.get_color_mut().set_argb(argb);
                        g.set_gradient_stop(stop);
                    }
                    let mut f = umya::Fill::default();
                    f.set_gradient_fill(g);
                    st.set_fill(f);
                }
                13 => {
                    st.get_font_mut().get_color_mut().set_theme_index(5).set_tint(-0.249977111117893);
                }
                14 => {
                    st.get_borders_mut().get_top_mut().set_border_style(umya::Border::BORDER_MEDIUM);
                    st.get_borders_mut().get_top_mut().get_color_mut().set_indexed(10);
                    st.get_borders_mut().get_right_mut().set_border_style(umya::Border::BORDER_HAIR);
                }
                15 => {
                    st.get_alignment_mut().set_horizontal(umya::HorizontalAlignmentValues::Justify);
                    st.get_alignment_mut().set_vertical(umya::VerticalAlignmentValues::Distributed);
                }
                1 => {
                    st.get_font_mut().get_color_mut().set_argb("FF3366CC");
                }
                2 => {
                    st.get_font_mut().set_size(14.0).set_name("Arial");
                }
                3 => {
                    st.get_borders_mut().get_bottom_mut().set_border_style(umya::Border::BORDER_THIN);
                    st.get_borders_mut().get_left_mut().set_border_style(umya::Border::BORDER_DOUBLE);
                }
                4 => {
                    st.get_alignment_mut().set_horizontal(umya::HorizontalAlignmentValues::Center);
                }
                5 => {
                    st.get_alignment_mut().set_wrap_text(true);
                    st.get_alignment_mut().set_vertical(umya::VerticalAlignmentValues::Top);
                }
                _ => {
                    st.get_font_mut().set_strikethrough(true).set_underline("single");
                }
            }
        }),
        Op::ClearComments { sheet } => sheet_mut(book, *sheet).map(|s| {
            s.get_comments_mut().clear();
        }),
        Op::SetMacros { on } => {
            if *on {
                // an (opaque) vbaProject.bin payload
                book.set_macros_code(vec![0xD0u8, 0xCF, 0x11, 0xE0, 0xA1, 0xB1, 0x1A, 0xE1, 1, 2, 3, 4]);
            } else {
                book.remove_macros_code();
            }
            Some(())
        }
        Op::HideRow { sheet, row } => sheet_mut(book, *sheet).map(|s| {
            s.get_row_dimension_mut(row).set_hidden(true);
        }),
        Op::HideCol { sheet, col } => sheet_mut(book, *sheet).map(|s| {
            s.get_column_dimension_by_number_mut(col).set_hidden(true);
        }),
        Op::CommentRich { sheet, cell, author, parts } => sheet_mut(book, *sheet).map(|s| {
            s.get_comments_mut().retain(|o| o.get_coordinate().to_string() != *cell);
            let mut c = umya::Comment::default();
            c.new_comment(cell.as_str());
            c.set_author(author.clone());
            let mut rt = umya::RichText::default();
            for (i, p) in parts.iter().enumerate() {
                let mut te = umya::TextElement::default();
                te.set_text(p.clone());
                if i == 0 {
                    te.get_font_mut().set_bold(true);
                }
                rt.add_rich_text_elements(te);
            }
            c.set_text(rt);
            s.add_comments(c);
        }),
        Op::RowStyle { sheet, row, k } => sheet_mut(book, *sheet).map(|s| {
            let st = s.get_row_dimension_mut(row).get_style_mut();
            match k % 3 {
                0 => {
                    st.get_font_mut().set_bold(true);
                }
                1 => {
                    st.set_background_color("FFDDEEFF");
                }
                _ => {
                    st.get_number_format_mut().set_format_code("0.000");
                }
            }
        }),
        Op::ColStyle { sheet, col, k } => sheet_mut(book, *sheet).map(|s| {
            let st = s.get_column_dimension_by_number_mut(col).get_style_mut();
            match k % 3 {
                0 => {
                    st.get_font_mut().set_italic(true);
                }
                1 => {
                    st.set_background_color("FFFFEEDD");
                }
                _ => {
                    st.get_alignment_mut().set_horizontal(umya::HorizontalAlignmentValues::Right);
                }
            }
        }),
        Op::Image { sheet, cell, name, blue } => sheet_mut(book, *sheet).map(|s| {
            let mut marker = umya::structs::drawing::spreadsheet::MarkerType::default();
            marker.set_coordinate(cell.as_str());
            let mut img = umya::structs::Image::default();
            let bytes: Vec<u8> = if *blue { PNG_BLUE.to_vec() } else { PNG_RED.to_vec() };
            img.new_image_with_dimensions(1, 1, name.as_str(), bytes, marker);
            s.add_image(img);
        }),
        Op::Twin { sheet, cell, other_sheet, other_cell, text } => {
            let chars: Vec<char> = text.chars().collect();
            let mid = chars.len() / 2;
            let (a, b): (String, String) = (chars[..mid].iter().collect(), chars[mid..].iter().collect());
            apply(book, &Op::SetRich { sheet: *sheet, cell: cell.clone(), parts: vec![a, b] });
            apply(book, &Op::SetText { sheet: *other_sheet, cell: other_cell.clone(), v: text.clone() });
            Some(())
        }
        Op::Annot { a } => {
            crate::annot::apply(book, a);
            Some(())
        }
        Op::EditComment { sheet, nth, text } => sheet_mut(book, *sheet).and_then(|s| {
            let n = s.get_comments().len();
            if n == 0 {
                None
            } else {
                s.get_comments_mut()[*nth % n].set_text_string(text.clone());
                Some(())
            }
        }),
        Op::Table { sheet, name, top } => sheet_mut(book, *sheet).map(|s| {
            // a 2x2 table with a header row; header cells must hold the column names
            let r0 = *top;
            s.get_cell_mut((6u32, r0)).set_value_string(format!("{}_x", name));
            s.get_cell_mut((7u32, r0)).set_value_string(format!("{}_y", name));
            s.get_cell_mut((6u32, r0 + 1)).set_value_number(1);
            s.get_cell_mut((7u32, r0 + 1)).set_value_number(2);
            let mut t = umya::structs::Table::new(name, ((6u32, r0), (7u32, r0 + 1)));
            t.add_column(umya::structs::TableColumn::new(&format!("{}_x", name)));
            t.add_column(umya::structs::TableColumn::new(&format!("{}_y", name)));
            s.add_table(t);
        }),
    }
    .is_some()
}

pub fn apply_all(book: &mut Spreadsheet, ops: &[Op]) {
    for op in ops {
        apply(book, op);
    }
}

// ------------------------------------------------------------------------------------------------
// generation
// ------------------------------------------------------------------------------------------------

/// few coordinates (collisions are frequent), chosen so that string order, (column,row) order and
/// (row,column) order all differ: two-digit rows, two-letter columns
pub const CELLS: &[&str] = &["A1", "B1", "A10", "C1", "A2", "AA1", "B2", "C2", "A3", "B10", "B3", "D5", "A7", "E2", "C9", "Z3", "AB12", "XFD3", "XFC3", "XFD4", "A1048576"];

pub const ALPHABETS: &[&[&str]] = &[
    &["a", "b", "c", "x", "y", "z", "0", "1", " "],
    &["&", "<", ">", "\"", "'", "a", ";", "&amp;"],
    &[" ", "  ", "\n", "\t", "a", "b", "\r\n"],
    &["é", "ß", "日本", "😀", "𝄞", "Ω", "a", "_x0041_", "_x000A_"],
    &["a", "\u{1}", "\u{b}", "\u{1f}", "b", "_x0041_", "\u{7f}"],
    // the two non-characters XML 1.0 excludes, without any C0 control or underscore next to them
    &["a", "\u{fffe}", "\u{ffff}", "é", " ", "b"],
];

pub fn gen_text(rng: &mut Rng, alpha: usize, max_parts: usize) -> String {
    let a = ALPHABETS[alpha % ALPHABETS.len()];
    let n = 1 + rng.usize(max_parts.max(1));
    let mut s = String::new();
    for _ in 0..n {
        s.push_str(a[rng.usize(a.len())]);
    }
    s
}

/// a text that is unique (carries `tag`) and cannot be mistaken for a number/bool/error
pub fn tagged(rng: &mut Rng, tag: &str, alpha: usize) -> String {
    format!("{}:{}", tag, gen_text(rng, alpha, 4))
}

pub fn col_letters(mut c: u32) -> String {
    let mut s = Vec::new();
    while c > 0 {
        let r = ((c - 1) % 26) as u8;
        s.push((b'A' + r) as char);
        c = (c - 1) / 26;
    }
    s.iter().rev().collect()
}

pub fn gen_cell(rng: &mut Rng, ncells: usize) -> String {
    CELLS[rng.usize(ncells.min(CELLS.len()).max(1))].to_string()
}

pub struct GenCfg {
    pub sheets: usize,
    pub ncells: usize,
    pub alpha: usize,
    /// weights: text, rich, num, bool, formula, remove, style, hyperlink, comment, merge, defined name, table, sheet-local name
    pub w: [u32; 13],
}

pub fn gen_cell_op(rng: &mut Rng, cfg: &GenCfg, tag: &str) -> Op {
    let sheet = rng.usize(cfg.sheets.max(1));
    let cell = gen_cell(rng, cfg.ncells);
    match rng.weighted(&cfg.w) {
        0 => {
            let v = match rng.usize(12) {
                0 => String::new(),
                1 => "   ".to_string(),
                2 => format!("{}:{}", tag, "long ".repeat(200 + rng.usize(400))),
                _ => tagged(rng, tag, cfg.alpha),
            };
            Op::SetText { sheet, cell, v }
        }
        1 if rng.chance(1, 3) => {
            // neighbours in the row, or the same cell on another sheet
            let (col, row) = crate::decode::col_row(&cell).unwrap_or((1, 1));
            let other_cell = if rng.chance(2, 3) && col < 16000 { format!("{}{}", col_letters(col + 1 + rng.below(2) as u32), row) } else { format!("{}{}", col_letters(col), if row < 1_000_000 { row + 1 } else { row - 1 }) };
            let other_sheet = sheet;
            Op::Twin { sheet, cell, other_sheet, other_cell, text: format!("{}:{}tw", tag, gen_text(rng, cfg.alpha, 2)) }
        }
        1 => {
            let n = 1 + rng.usize(3);
            Op::SetRich { sheet, cell, parts: (0..n).map(|i| format!("{}.{}:{}", tag, i, gen_text(rng, cfg.alpha, 2))).collect() }
        }
        2 => {
            let v = match rng.usize(6) {
                4 => [-0.0, 1e-10, 1e15, 123456789.123456789, 0.1 + 0.2, 1e300, 5e-324][rng.usize(7)],
                5 => (rng.below(2_000_000_000) as f64) * 1e-7,
                0 => rng.below(1000) as f64,
                1 => (rng.below(2_000_000) as f64 - 1_000_000.0) / 1000.0,
                2 => f64::from_bits(rng.next_u64() & 0x7FEF_FFFF_FFFF_FFFF | 0x3000_0000_0000_0000),
                _ => -(rng.below(100) as f64) * 0.1,
            };
            Op::SetNum { sheet, cell, v: if v.is_finite() { v } else { 1.5 } }
        }
        3 => Op::SetBool { sheet, cell, v: rng.chance(1, 2) },
        4 => {
            let f = match rng.usize(5) {
                0 => format!("A1&\"<{}>\"&\" & \"", rng.below(9)),
                1 => format!("IF(A1>{},\"yes\",\"no\")", rng.below(9)),
                2 => format!("'{}'!A1+1", "Sheet1"),
                _ => format!("SUM(A1:A{})", 1 + rng.below(5)),
            };
            let result = if f.starts_with("SUM") || f.contains("+1") {
                format!("{}", rng.below(100))
            } else if rng.chance(1, 2) {
                format!("s:{}", ["007", "TRUE", "false", "#N/A", "7e2", "001.50", " 12 ", "abc", "#DIV/0!", "1,5", "", ""][rng.usize(12)])
            } else {
                format!("r<{}>&", rng.below(9))
            };
            Op::SetFormula { sheet, cell, f, result }
        }
        5 => {
            if rng.chance(1, 2) {
                Op::RemoveCell { sheet, cell }
            } else {
                Op::SetBlank { sheet, cell }
            }
        }
        6 => match rng.usize(13) {
            // equal widths on neighbouring columns are common; best-fit is a flag of its own
            10 => Op::ColWidth { sheet, col: 1 + rng.below(8) as u32, w: [12.0, 12.0, 20.5, 9.140625][rng.usize(4)], best_fit: rng.chance(1, 2) },
            11 => Op::RowHeight { sheet, row: 1 + rng.below(12) as u32, h: [15.0, 30.0, 30.0, 12.75][rng.usize(4)] },
            12 => Op::CopyRange { sheet, range: ["A1:B3", "A1:C1", "B1:B12", "A3:AA4"][rng.usize(4)].to_string(), rows: [0, 3, 12, 14, 20][rng.usize(5)], cols: [0, 1, 4][rng.usize(3)], mv: rng.chance(1, 3) },
            7 => Op::RowStyle { sheet, row: 1 + rng.below(12) as u32, k: rng.below(3) as u8 },
            8 => Op::ColStyle { sheet, col: 1 + rng.below(8) as u32, k: rng.below(3) as u8 },
            9 => Op::Image { sheet, cell, name: ["logo.png", "logo.png", "pic 1.png", "é.png", "a&b.png"][rng.usize(5)].to_string(), blue: rng.chance(1, 2) },
            3 | 4 => Op::Format { sheet, cell, k: rng.below(16) as u8 },
            5 => Op::HideRow { sheet, row: 1 + rng.below(12) as u32 },
            6 => Op::HideCol { sheet, col: 1 + rng.below(8) as u32 },
            0 => Op::Bold { sheet, cell },
            1 => Op::NumFmt {
                sheet,
                cell,
                code: ["0.00", "#,##0", "0%", "yyyy-mm-dd", "[Red]0.00;[Blue]-0.00", "\"text \"0", "yyyy\\-mm\\-dd", "[$-409]d/m/yy", "0.0E+00", "m/d/yyyy", "@", "#,##0.00_);(#,##0.00)"][rng.usize(12)].to_string(),
            },
            _ => Op::FillColor { sheet, cell, argb: ["FFFF0000", "FF00FF00", "FF0000FF"][rng.usize(3)].to_string() },
        },
        7 => Op::Hyperlink {
            sheet,
            cell,
            url: match rng.usize(7) {
                // a link that has no target yet (what get_hyperlink_mut() creates before set_url)
                6 if rng.chance(1, 3) => String::new(),
                // a few targets that several links of a workbook share (a, b, a, c ...)
                4 | 5 => format!("https://example.com/shared/{}", ["a", "b", "c"][rng.usize(3)]),
                0 => format!("https://example.com/{}/{}#frag ment", tag, rng.below(1000)),
                1 => format!("file:///C:/some dir/{} file.xlsx", rng.below(100)),
                _ => format!("https://example.com/{}/{}", tag, rng.below(1000)),
            },
            location: false,
            tooltip: String::new(),
        },
        8 => Op::Comment { sheet, cell, author: ["alice", "Bob", "yves", "Zed & <Co>", "éva", "Émile", "bob", "ALICE"][rng.usize(8)].to_string(), text: tagged(rng, tag, cfg.alpha) },
        9 => {
            // non-overlapping by construction: the row band derives from the (unique) step tag
            let k: u32 = tag.chars().filter(|c| c.is_ascii_digit()).collect::<String>().parse::<u32>().unwrap_or(0) % 5000;
            let w = 1 + rng.below(3) as u8;
            Op::Merge { sheet, range: format!("I{}:{}{}", 10 + 3 * k, (b'I' + w) as char, 11 + 3 * k) }
        }
        10 => Op::DefinedName { sheet, name: format!("name_{}_{}", tag.replace(['#', ':'], "_"), rng.below(100)), address: format!("$A${}", 1 + rng.below(9)) },
        11 => Op::Table { sheet, name: format!("T_{}", tag.replace(|c: char| !c.is_ascii_alphanumeric(), "_")), top: 20 + 3 * rng.below(10) as u32 },
        _ => Op::LocalName { sheet, name: format!("ln_{}", tag.replace(|c: char| !c.is_ascii_alphanumeric(), "_")), address: format!("$B${}", 1 + rng.below(9)) },
    }
}

// ------------------------------------------------------------------------------------------------
// projection through the public getters
// ------------------------------------------------------------------------------------------------

pub fn style_fp(st: &umya::Style) -> String {
    let mut v = Vec::new();
    if let Some(f) = st.get_font() {
        v.push(format!(
            "font:{}:{}:{}:{}:{}",
            f.get_name(),
            f.get_size(),
            f.get_bold(),
            f.get_italic(),
            f.get_color().get_argb()
        ));
    }
    if let Some(f) = st.get_font() {
        v.push(format!("font2:{}:{}:{}", f.get_strikethrough(), f.get_underline(), f.get_italic()));
    }
    if let Some(b) = st.get_borders() {
        v.push(format!(
            "bd:{}:{}:{}:{}",
            b.get_left().get_border_style(),
            b.get_right().get_border_style(),
            b.get_top().get_border_style(),
            b.get_bottom().get_border_style()
        ));
    }
    if let Some(c) = st.get_background_color() {
        v.push(format!("bg:{}", c.get_argb()));
    }
    if let Some(n) = st.get_number_format() {
        v.push(format!("nf:{}", n.get_format_code()));
    }
    if let Some(a) = st.get_alignment() {
        v.push(format!("al:{:?}:{:?}:{}", a.get_horizontal(), a.get_vertical(), a.get_wrap_text()));
    }
    // every other field of the formatting records, as the library holds it (the number format is covered by its
    // code above: its numeric id is representation)
    let rest = format!("{:?}|{:?}|{:?}|{:?}|{:?}", st.get_font(), st.get_fill(), st.get_borders(), st.get_alignment(), st.get_protection());
    let dflt = "None|None|None|None|None";
    if rest != dflt {
        v.push(format!("all:{}", h(rest)));
    }
    v.join("|")
}

/// Projection of one (deserialized) worksheet through public getters. Visually empty cells (blank
/// value, no formula, default style, no hyperlink) are not content.
pub fn dump_sheet(ws: &umya::Worksheet, with_style: bool) -> Value {
    let mut cells: BTreeMap<String, Value> = BTreeMap::new();
    for c in ws.get_cell_collection() {
        let coord = c.get_coordinate().to_string();
        let v = c.get_value().to_string();
        let f = c.get_formula().to_string();
        let h = c.get_hyperlink().map(|h| json!([h.get_url(), h.get_location(), h.get_tooltip()]));
        let sfp = if with_style { style_fp(c.get_style()) } else { String::new() };
        let dt = c.get_data_type().to_string();
        if v.is_empty() && f.is_empty() && h.is_none() && (sfp.is_empty() || !with_style) && c.get_style().is_visually_empty_hint() {
            continue;
        }
        let rich = match c.get_raw_value() {
            umya::CellRawValue::RichText(rt) => {
                Some(rt.get_rich_text_elements().iter().map(|e| e.get_text().to_string()).collect::<Vec<_>>())
            }
            _ => None,
        };
        cells.insert(coord, json!({"t": dt, "v": v, "f": f, "h": h, "s": sfp, "rich": rich}));
    }
    let mut merges: Vec<String> = ws.get_merge_cells().iter().map(|r| r.get_range()).collect();
    merges.sort();
    let mut comments: Vec<(String, String, String)> = ws
        .get_comments()
        .iter()
        .map(|c| (c.get_coordinate().to_string(), c.get_author().to_string(), c.get_text().get_text().to_string()))
        .collect();
    comments.sort();
    let mut dn: Vec<(String, String, bool)> = ws.get_defined_names().iter().map(|d| (d.get_name().to_string(), d.get_address(), d.has_local_sheet_id())).collect();
    dn.sort();
    json!({
        "name": ws.get_name(),
        "state": format!("{:?}", ws.get_state()),
        "cells": cells,
        "merges": merges,
        "comments": comments,
        "defined_names": dn,
    })
}

pub trait StyleHint {
    fn is_visually_empty_hint(&self) -> bool;
}
impl StyleHint for umya::Style {
    fn is_visually_empty_hint(&self) -> bool {
        style_fp(self).is_empty() && self.get_borders().is_none() && self.get_fill().is_none() && self.get_protection().is_none()
    }
}

/// Projection of a whole (fully deserialized) workbook.
pub fn dump_book(book: &Spreadsheet, with_style: bool) -> Value {
    let sheets: Vec<Value> = book.get_sheet_collection_no_check().iter().map(|s| dump_sheet(s, with_style)).collect();
    let mut dn: Vec<(String, String)> = book.get_defined_names().iter().map(|d| (d.get_name().to_string(), d.get_address())).collect();
    dn.sort();
    json!({"sheets": sheets, "active": book.get_workbook_view().get_active_tab(), "defined_names": dn})
}

pub fn save_mem(book: &Spreadsheet, light: bool) -> Result<Vec<u8>, String> {
    let mut v: Vec<u8> = Vec::new();
    let r = if light {
        umya::writer::xlsx::write_writer_light(book, &mut v)
    } else {
        umya::writer::xlsx::write_writer(book, &mut v)
    };
    r.map_err(|e| format!("{:?}", e))?;
    Ok(v)
}

pub fn load_mem(bytes: &[u8], eager: bool) -> Result<Spreadsheet, String> {
    umya::reader::xlsx::read_reader(std::io::Cursor::new(bytes), eager).map_err(|e| format!("{:?}", e))
}

/// The numeric id under which a number format is stored (and whether a code equal to a built-in one
/// is stored as built-in or as custom) is representation, not formatting: blank both.
fn norm_repr(s: &str) -> String {
    let mut out = String::with_capacity(s.len());
    let mut rest = s;
    loop {
        let a = rest.find("number_format_id: ");
        let b = rest.find("is_build_in: ");
        let (pos, key) = match (a, b) {
            (None, None) => break,
            (Some(x), None) => (x, "number_format_id: "),
            (None, Some(y)) => (y, "is_build_in: "),
            (Some(x), Some(y)) => {
                if x < y {
                    (x, "number_format_id: ")
                } else {
                    (y, "is_build_in: ")
                }
            }
        };
        out.push_str(&rest[..pos + key.len()]);
        out.push('_');
        let tail = &rest[pos + key.len()..];
        let skip = tail.find(|c: char| !(c.is_ascii_alphanumeric())).unwrap_or(tail.len());
        rest = &tail[skip..];
    }
    out.push_str(rest);
    out
}

pub fn h_bytes(b: &[u8]) -> String {
    use sha2::Digest;
    let d = sha2::Sha256::digest(b);
    d.iter().take(6).map(|x| format!("{:02x}", x)).collect()
}

/// Debug renderings of hash maps/sets (`{"k": v, ..}` not preceded by a type name) list their entries in
/// the order of the map's own random keys: sort the entries, recursively, so that two equal maps render equally.
pub fn canon_maps(s: &str) -> String {
    let b: Vec<char> = s.chars().collect();
    fn close(b: &[char], open: usize) -> Option<usize> {
        // index of the bracket matching b[open], honouring string literals
        let mut depth = 0i32;
        let mut i = open;
        let mut in_str = false;
        while i < b.len() {
            let c = b[i];
            if in_str {
                if c == '\\' {
                    i += 1;
                } else if c == '"' {
                    in_str = false;
                }
            } else {
                match c {
                    '"' => in_str = true,
                    '{' | '[' | '(' => depth += 1,
                    '}' | ']' | ')' => {
                        depth -= 1;
                        if depth == 0 {
                            return Some(i);
                        }
                    }
                    _ => {}
                }
            }
            i += 1;
        }
        None
    }
    fn go(b: &[char]) -> String {
        let mut out = String::with_capacity(b.len());
        let mut i = 0;
        let mut in_str = false;
        while i < b.len() {
            let c = b[i];
            if in_str {
                out.push(c);
                if c == '\\' && i + 1 < b.len() {
                    out.push(b[i + 1]);
                    i += 1;
                } else if c == '"' {
                    in_str = false;
                }
                i += 1;
                continue;
            }
            if c == '"' {
                in_str = true;
                out.push(c);
                i += 1;
                continue;
            }
            if c == '{' {
                let prev = out.trim_end().chars().last();
                let is_struct = prev.map(|p| p.is_alphanumeric() || p == '_' || p == '>').unwrap_or(false);
                if let Some(end) = close(b, i) {
                    let inner = &b[i + 1..end];
                    if is_struct {
                        out.push('{');
                        out.push_str(&go(inner));
                        out.push('}');
                    } else {
                        // split the entries at depth 0
                        let mut entries: Vec<String> = Vec::new();
                        let mut depth = 0i32;
                        let mut start = 0usize;
                        let mut q = false;
                        let mut k = 0usize;
                        while k < inner.len() {
                            let d = inner[k];
                            if q {
                                if d == '\\' {
                                    k += 1;
                                } else if d == '"' {
                                    q = false;
                                }
                            } else {
                                match d {
                                    '"' => q = true,
                                    '{' | '[' | '(' => depth += 1,
                                    '}' | ']' | ')' => depth -= 1,
                                    ',' if depth == 0 => {
                                        entries.push(go(&inner[start..k]).trim().to_string());
                                        start = k + 1;
                                    }
                                    _ => {}
                                }
                            }
                            k += 1;
                        }
                        let last = go(&inner[start.min(inner.len())..]).trim().to_string();
                        if !last.is_empty() {
                            entries.push(last);
                        }
                        entries.sort();
                        out.push('{');
                        out.push_str(&entries.join(", "));
                        out.push('}');
                    }
                    i = end + 1;
                    continue;
                }
            }
            out.push(c);
            i += 1;
        }
        out
    }
    go(&b)
}

fn h(s: String) -> String {
    let s = if s.contains(": {") || s.contains("({") { canon_maps(&s) } else { s };
    let s = norm_repr(&s);
    if std::env::var("USIM_DEBUG_DEEP").is_ok() {
        return s;
    }
    format!("{:016x}", crate::rng::fnv(&s))
}

/// Deep projection of one worksheet: everything `dump_sheet` has, plus a fingerprint (hash of the
/// Debug rendering) of every per-sheet structure that contains no randomised container. Used only for
/// differential comparisons between two objects produced by the same library build (lazy vs eager,
/// reload of file A vs reload of file B); never against a hand-written expectation.
pub fn dump_sheet_deep(ws: &umya::Worksheet) -> Value {
    let mut v = dump_sheet(ws, true);
    let mut cell_styles: BTreeMap<String, String> = BTreeMap::new();
    for c in ws.get_cell_collection() {
        let s = format!("{:?}", c.get_style());
        let dflt = format!("{:?}", umya::Style::default());
        if s != dflt {
            cell_styles.insert(c.get_coordinate().to_string(), h(s));
        }
    }
    let mut rows: Vec<(u32, String)> = ws.get_row_dimensions().iter().map(|r| (*r.get_row_num(), h(format!("{:?}", r)))).collect();
    rows.sort();
    let mut cols: Vec<(u32, String)> = ws.get_column_dimensions().iter().map(|c| (*c.get_col_num(), h(format!("{:?}", c)))).collect();
    cols.sort();
    let deep = json!({
        "cell_styles": cell_styles,
        "rows": rows,
        "cols": cols,
        "cf": h(format!("{:?}", ws.get_conditional_formatting_collection())),
        "n_cf": ws.get_conditional_formatting_collection().len(),
        "dv": h(format!("{:?}", ws.get_data_validations())),
        "dv2010": h(format!("{:?}", ws.get_data_validations_2010())),
        "tables": ws.get_tables().iter().map(|t| format!("{}|{}|{:?}", t.get_name(), t.get_display_name(), t.get_area())).collect::<Vec<_>>(),
        "tables_full": ws.get_tables().iter().map(|t| h(format!("{:?}", t))).collect::<Vec<_>>(),
        "auto_filter": format!("{:?}", ws.get_auto_filter()),
        "tab_color": format!("{:?}", ws.get_tab_color()),
        "page_setup": h(format!("{:?}", ws.get_page_setup())),
        "page_margins": h(format!("{:?}", ws.get_page_margins())),
        "print_options": h(format!("{:?}", ws.get_print_options())),
        "header_footer": h(format!("{:?}", ws.get_header_footer())),
        "sheet_views": h(format!("{:?}", ws.get_sheets_views())),
        "protection": h(format!("{:?}", ws.get_sheet_protection())),
        "n_images": ws.get_image_collection().len(),
        "n_charts": ws.get_chart_collection().len(),
        "images": ws.get_image_collection().iter().map(|i| h(format!("{:?}", i))).collect::<Vec<_>>(),
        "charts": ws.get_chart_collection().iter().map(|i| h(format!("{:?}", i))).collect::<Vec<_>>(),
        "active_cell": ws.get_active_cell(),
        "code_name": ws.get_code_name(),
        "sheet_format": h(format!("{:?}", ws.get_sheet_format_properties())),
        "row_breaks": h(format!("{:?}", ws.get_row_breaks())),
        "col_breaks": h(format!("{:?}", ws.get_column_breaks())),
        "ole": h(format!("{:?}", ws.get_ole_objects())),
    });
    v["deep"] = deep;
    v
}

/// names of the keys in which two JSON objects differ (for diagnostics)
pub fn diff_keys(a: &Value, b: &Value, prefix: &str, out: &mut Vec<String>) {
    match (a, b) {
        (Value::Object(x), Value::Object(y)) => {
            let keys: std::collections::BTreeSet<&String> = x.keys().chain(y.keys()).collect();
            for k in keys {
                match (x.get(k), y.get(k)) {
                    (Some(p), Some(q)) => {
                        if p != q {
                            diff_keys(p, q, &format!("{}/{}", prefix, k), out)
                        }
                    }
                    (Some(p), None) => out.push(format!("{}/{} only left: {}", prefix, k, short(p))),
                    (None, Some(q)) => out.push(format!("{}/{} only right: {}", prefix, k, short(q))),
                    _ => {}
                }
            }
        }
        (Value::Array(x), Value::Array(y)) if x.len() == y.len() => {
            for (i, (p, q)) in x.iter().zip(y.iter()).enumerate() {
                if p != q {
                    diff_keys(p, q, &format!("{}/{}", prefix, i), out);
                }
            }
        }
        _ => {
            if a != b {
                out.push(format!("{}: {} != {}", prefix, short(a), short(b)));
            }
        }
    }
}

fn short(v: &Value) -> String {
    let s = v.to_string();
    if s.chars().count() > 160 && std::env::var("USIM_DEBUG_DEEP").is_err() {
        format!("{}…", s.chars().take(160).collect::<String>())
    } else {
        s
    }
}
