//! usim — deterministic simulator with fault injection for umya-spreadsheet.
mod annot;
mod c02;
mod c04;
mod c06;
mod c11;
mod c12;
mod c13;
mod c14;
#[cfg(umya_verif_sched)]
mod c16;
mod crypto;
mod decode;
mod engine;
mod engines;
mod rng;
mod shim;
mod world;

use engine::*;
use serde_json::{json, Value};
use std::collections::{BTreeMap, BTreeSet};
use std::sync::atomic::{AtomicU64, Ordering};
use std::sync::{Arc, Mutex};
use std::time::Instant;

fn arg(args: &[String], name: &str) -> Option<String> {
    args.iter().position(|a| a == name).and_then(|i| args.get(i + 1).cloned())
}

fn parse_u64(s: &str) -> u64 {
    if let Some(h) = s.strip_prefix("0x") {
        u64::from_str_radix(h, 16).unwrap_or(0)
    } else {
        s.parse().unwrap_or(0)
    }
}

#[derive(Default)]
struct RunAgg {
    evaluations: u64,
    nontrivial: u64,
    sigs: Vec<u64>,
    probes: BTreeMap<String, u64>,
    faults: BTreeMap<String, u64>,
    steps: BTreeMap<String, u64>,
    violations: Vec<Value>,
    harness_errors: Vec<String>,
    samples: Vec<Value>,
}

fn main() {
    let args: Vec<String> = std::env::args().collect();
    let cmd = args.get(1).cloned().unwrap_or_default();
    if std::env::var("USIM_PANIC_TRACE").is_ok() {
        std::panic::set_hook(Box::new(|i| {
            eprintln!("PANIC: {}\n{}", i, std::backtrace::Backtrace::force_capture());
        }));
    } else {
        std::panic::set_hook(Box::new(|_| {}));
    }
    let scratch = arg(&args, "--scratch").unwrap_or_else(|| "/verif/scratch".to_string());
    let _ = std::fs::create_dir_all(&scratch);
    let code = match cmd.as_str() {
        "selftest" => cmd_selftest(&scratch),
        "run" => cmd_run(&args, &scratch),
        "replay" => cmd_replay(&args, &scratch),
        "minimise" => cmd_minimise(&args, &scratch),
        "child" => match arg(&args, "--case").and_then(|p| std::fs::read_to_string(p).ok()).and_then(|t| serde_json::from_str::<Value>(&t).ok()) {
            Some(case) => c13::child_main(&case),
            None => 2,
        },
        _ => {
            eprintln!("usage: usim selftest|run|replay|minimise ...");
            2
        }
    };
    std::process::exit(code);
}

fn cmd_selftest(scratch: &str) -> i32 {
    if let Err(e) = shim::self_test(scratch) {
        println!("HARNESS-ERROR seam self-test: {}", e);
        return 2;
    }
    {
        // canonical rendering of hash containers inside Debug strings (used by the deep projections)
        #[derive(Debug)]
        #[allow(dead_code)]
        struct S {
            m: std::collections::HashMap<String, Vec<(u8, &'static str)>>,
            t: &'static str,
        }
        let mk = |order: &[usize]| {
            let keys = ["lv9", "lv2", "def", "a{b", "q\"}"];
            let mut m = std::collections::HashMap::new();
            for &i in order {
                m.insert(keys[i].to_string(), vec![(i as u8, "x, {y}")]);
            }
            world::canon_maps(&format!("{:?}", Some(S { m, t: "{z" })))
        };
        let a = mk(&[0, 1, 2, 3, 4]);
        let b = mk(&[4, 2, 0, 3, 1]);
        if a != b || !a.contains("\"def\": [(2, \"x, {y}\")]") || !a.contains("t: \"{z\"") {
            println!("HARNESS-ERROR canon_maps self-test: {} vs {}", a, b);
            return 2;
        }
    }
    if let Err(e) = warm_up(0) {
        println!("HARNESS-ERROR warm-up: {}", e);
        return 2;
    }
    println!("selftest ok: S3 shim sees open/write/close/rename/unlink; S5 hash keys pinned");
    0
}

fn cmd_run(args: &[String], scratch: &str) -> i32 {
    let engine = arg(args, "--engine").unwrap_or_default();
    let seed = parse_u64(&arg(args, "--seed").unwrap_or("0".into()));
    let from = parse_u64(&arg(args, "--from").unwrap_or("0".into()));
    let to = parse_u64(&arg(args, "--to").unwrap_or("1".into()));
    let tier = arg(args, "--tier").unwrap_or("quick".into());
    let jobs = parse_u64(&arg(args, "--jobs").unwrap_or("16".into())).max(1);
    let out_path = arg(args, "--out");
    let max_s = parse_u64(&arg(args, "--max-seconds").unwrap_or("100000".into()));
    // the hang watchdog is a harness safeguard, not an oracle: generous in the thorough tier, whose sources
    // include the multi-megabyte corpus files (seconds per load) and which may share the machine
    let wd = arg(args, "--watchdog").map(|v| parse_u64(&v)).unwrap_or(if arg(args, "--tier").as_deref() == Some("thorough") { 1800 } else { 300 });
    engine::WATCHDOG_SECS.store(wd, std::sync::atomic::Ordering::Relaxed);
    let nsamples = parse_u64(&arg(args, "--samples").unwrap_or("3".into())) as usize;
    if let Err(e) = shim::self_test(scratch) {
        println!("HARNESS-ERROR seam self-test: {}", e);
        return 2;
    }
    if let Err(e) = warm_up(seed) {
        println!("HARNESS-ERROR warm-up: {}", e);
        return 2;
    }
    let t0 = Instant::now();
    let next = Arc::new(AtomicU64::new(from));
    let results: Arc<Mutex<BTreeMap<u64, RunAgg>>> = Arc::new(Mutex::new(BTreeMap::new()));
    let mut handles = Vec::new();
    for _ in 0..jobs {
        let next = next.clone();
        let results = results.clone();
        let engine = engine.clone();
        let tier = tier.clone();
        let scratch = scratch.to_string();
        handles.push(std::thread::spawn(move || loop {
            let i = next.fetch_add(1, Ordering::SeqCst);
            if i >= to || t0.elapsed().as_secs() >= max_s || engine::HANGS.load(Ordering::Relaxed) >= 2 {
                break;
            }
            let rs = rng::run_seed(seed, &engine, i);
            let mut agg = RunAgg::default();
            let cs = {
                let e2 = engine.clone();
                let t2 = tier.clone();
                let s2 = scratch.clone();
                // case generation may itself execute a probing run; give it a pinned hash seed too
                std::thread::Builder::new()
                    .stack_size(16 << 20)
                    .spawn(move || {
                        shim::set_thread_hash_seed(rng::mix(rs, 77));
                        std::panic::catch_unwind(|| engines::cases(&e2, rs, &t2, &s2))
                    })
                    .unwrap()
                    .join()
            };
            let cs = match cs {
                Ok(Ok(c)) => c,
                _ => {
                    agg.harness_errors.push(format!("run {}: case generation panicked", i));
                    results.lock().unwrap().insert(i, agg);
                    continue;
                }
            };
            // a leading {"__shared__": {...}} element carries keys common to all cases of the run
            let (shared, cs) = match cs.first() {
                Some(f) if f.get("__shared__").is_some() => (f["__shared__"].clone(), cs[1..].to_vec()),
                _ => (Value::Null, cs),
            };
            for (k, case) in cs.iter().enumerate() {
                let full;
                let case = if let Some(m) = shared.as_object() {
                    let mut c = case.clone();
                    for (key, v) in m {
                        if c.get(key).is_none() {
                            c[key] = v.clone();
                        }
                    }
                    full = c;
                    &full
                } else {
                    case
                };
                let o = execute_case(case, &scratch);
                agg.evaluations += 1;
                if let Some(e) = &o.harness_error {
                    agg.harness_errors.push(format!("run {} case {}: {}", i, k, e));
                }
                if o.nontrivial {
                    agg.nontrivial += 1;
                    agg.sigs.push(rng::fnv(&o.signature));
                }
                for (p, n) in &o.probes {
                    *agg.probes.entry(p.clone()).or_insert(0) += n;
                }
                for (p, n) in &o.faults_fired {
                    *agg.faults.entry(p.clone()).or_insert(0) += n;
                }
                for (p, n) in &o.steps {
                    *agg.steps.entry(p.clone()).or_insert(0) += n;
                }
                for v in &o.verdicts {
                    agg.violations.push(json!({"run": i, "case_index": k, "verdict": v, "case": case, "record": o.record}));
                }
                if agg.samples.len() < 2 && (o.nontrivial || k == 0) {
                    agg.samples.push(json!({"run": i, "case": case, "record": o.record, "verdicts": o.verdicts}));
                }
            }
            results.lock().unwrap().insert(i, agg);
        }));
    }
    for h in handles {
        let _ = h.join();
    }
    // merge in run-index order: the aggregate does not depend on --jobs
    let results = results.lock().unwrap();
    let mut evaluations = 0u64;
    let mut sigs: BTreeSet<u64> = BTreeSet::new();
    let mut nontrivial = 0u64;
    let mut probes: BTreeMap<String, u64> = BTreeMap::new();
    let mut faults: BTreeMap<String, u64> = BTreeMap::new();
    let mut steps: BTreeMap<String, u64> = BTreeMap::new();
    let mut viol_counts: BTreeMap<String, u64> = BTreeMap::new();
    let mut viol_first: Vec<Value> = Vec::new();
    let mut herr: Vec<String> = Vec::new();
    let mut samples: Vec<Value> = Vec::new();
    for (_, a) in results.iter() {
        evaluations += a.evaluations;
        nontrivial += a.nontrivial;
        sigs.extend(a.sigs.iter().cloned());
        for (k, v) in &a.probes {
            *probes.entry(k.clone()).or_insert(0) += v;
        }
        for (k, v) in &a.faults {
            *faults.entry(k.clone()).or_insert(0) += v;
        }
        for (k, v) in &a.steps {
            *steps.entry(k.clone()).or_insert(0) += v;
        }
        for v in &a.violations {
            let verdict: Verdict = serde_json::from_value(v["verdict"].clone()).unwrap();
            let key = verdict.key();
            let c = viol_counts.entry(key).or_insert(0);
            *c += 1;
            // keep the first few witnesses of each distinct (class, facets); prefer short ones later
            if *c <= 3 {
                viol_first.push(v.clone());
            }
        }
        herr.extend(a.harness_errors.iter().cloned());
        for s in &a.samples {
            if samples.len() < nsamples {
                samples.push(s.clone());
            }
        }
    }
    let wall = t0.elapsed().as_secs_f64();
    let summary = json!({
        "engine": engine, "seed": seed, "tier": tier, "from": from, "to": to,
        "runs_done": results.len(), "evaluations": evaluations, "nontrivial": nontrivial,
        "distinct_nontrivial": sigs.len(), "probes": probes, "faults_fired": faults, "steps": steps,
        "violation_counts": viol_counts, "violations": viol_first, "harness_errors": herr.iter().take(20).collect::<Vec<_>>(),
        "n_harness_errors": herr.len(), "samples": samples, "wall_s": wall,
    });
    let text = serde_json::to_string(&summary).unwrap();
    match out_path {
        Some(p) => std::fs::write(p, text).unwrap(),
        None => println!("{}", text),
    }
    if !herr.is_empty() {
        2
    } else if !viol_counts.is_empty() {
        1
    } else {
        0
    }
}

fn load_case(path: &str) -> Option<Value> {
    let t = std::fs::read_to_string(path).ok()?;
    let v: Value = serde_json::from_str(&t).ok()?;
    if v.get("case").is_some() {
        Some(v["case"].clone())
    } else {
        Some(v)
    }
}

fn cmd_replay(args: &[String], scratch: &str) -> i32 {
    let path = match arg(args, "--file") {
        Some(p) => p,
        None => return 2,
    };
    let case = match load_case(&path) {
        Some(c) => c,
        None => {
            println!("HARNESS-ERROR cannot read replay file {}", path);
            return 2;
        }
    };
    let pseed = get_u64(&case, "process_seed");
    if let Err(e) = warm_up(pseed) {
        println!("HARNESS-ERROR warm-up: {}", e);
        return 2;
    }
    let o = execute_case(&case, scratch);
    println!("{}", serde_json::to_string(&json!({"verdicts": o.verdicts, "harness_error": o.harness_error, "record": o.record, "probes": o.probes})).unwrap());
    if o.harness_error.is_some() {
        2
    } else if !o.verdicts.is_empty() {
        1
    } else {
        0
    }
}

fn cmd_minimise(args: &[String], scratch: &str) -> i32 {
    let path = arg(args, "--file").unwrap_or_default();
    let out = arg(args, "--out").unwrap_or_default();
    let budget = parse_u64(&arg(args, "--budget").unwrap_or("300".into())) as usize;
    let t: Value = match std::fs::read_to_string(&path).ok().and_then(|t| serde_json::from_str(&t).ok()) {
        Some(v) => v,
        None => return 2,
    };
    let case = t["case"].clone();
    let verdict: Verdict = match serde_json::from_value(t["verdict"].clone()) {
        Ok(v) => v,
        Err(_) => return 2,
    };
    let pseed = get_u64(&case, "process_seed");
    if let Err(e) = warm_up(pseed) {
        println!("HARNESS-ERROR warm-up: {}", e);
        return 2;
    }
    let key = verdict.key();
    let engine = case["engine"].as_str().unwrap_or("").to_string();
    let t0 = Instant::now();
    let before: BTreeMap<String, usize> =
        engines::shrink_keys(&engine).iter().map(|k| (k.to_string(), case[*k].as_array().map(|a| a.len()).unwrap_or(0))).collect();
    // a hang costs 30 s per execution: such a witness is kept as it is
    let budget = if verdict.facets.get("kind").map(|k| k == "hang").unwrap_or(false) { 0 } else { budget };
    let (min, used) = minimise(&case, engines::shrink_keys(&engine), budget, |c| {
        if t0.elapsed().as_secs() > 90 {
            return false;
        }
        let o = execute_case(&engines::prepare_candidate(c), scratch);
        o.verdicts.iter().any(|v| v.key() == key)
    });
    // pin what failed (e.g. the schedule found), then verify the minimised trace twice
    let min = {
        let o = execute_case(&engines::prepare_candidate(&min), scratch);
        if o.verdicts.iter().any(|v| v.key() == key) {
            engines::finalise(&min, &o)
        } else {
            case.clone()
        }
    };
    let o1 = execute_case(&min, scratch);
    let o2 = execute_case(&min, scratch);
    let v1 = o1.verdicts.iter().find(|v| v.key() == key).cloned();
    let ok = v1.is_some() && o2.verdicts.iter().any(|v| v.key() == key);
    let after: BTreeMap<String, usize> =
        engines::shrink_keys(&engine).iter().map(|k| (k.to_string(), min[*k].as_array().map(|a| a.len()).unwrap_or(0))).collect();
    let doc = json!({
        "property": verdict.property, "verdict": v1.clone().unwrap_or(verdict), "case": min, "record": o1.record,
        "minimised_from": before, "minimised_to": after, "minimiser_executions": used, "replays_verified": ok,
    });
    std::fs::write(&out, serde_json::to_string_pretty(&doc).unwrap()).unwrap();
    if ok {
        0
    } else {
        println!("HARNESS-ERROR minimised trace does not reproduce");
        2
    }
}
