fn main(){ let b = umya_spreadsheet::new_file(); println!("{}", b.get_sheet_count()); }
