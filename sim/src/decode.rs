//! Mini-decoder: an xlsx reader written from ECMA-376 that shares no code with the library under
//! test (trusted base: the `zip` and `quick-xml` crates). It extracts what the oracles compare and
//! reports package-integrity problems.

use quick_xml::events::Event;
use quick_xml::Reader;
use serde::{Deserialize, Serialize};
use std::collections::{BTreeMap, BTreeSet};
use std::io::Read;

#[derive(Clone, Debug, Default)]
pub struct El {
    pub name: String, // local name
    pub attrs: Vec<(String, String)>,
    pub children: Vec<El>,
    pub text: String, // concatenated direct text
}

impl El {
    pub fn attr(&self, k: &str) -> Option<&str> {
        self.attrs.iter().find(|(a, _)| a == k).map(|(_, v)| v.as_str())
    }
    pub fn child(&self, n: &str) -> Option<&El> {
        self.children.iter().find(|c| c.name == n)
    }
    pub fn kids<'a>(&'a self, n: &'a str) -> impl Iterator<Item = &'a El> + 'a {
        self.children.iter().filter(move |c| c.name == n)
    }
    pub fn all_text(&self, out: &mut String) {
        out.push_str(&self.text);
        for c in &self.children {
            c.all_text(out);
        }
    }
}

fn local(n: &[u8]) -> String {
    let s = String::from_utf8_lossy(n);
    match s.rfind(':') {
        Some(i) => s[i + 1..].to_string(),
        None => s.to_string(),
    }
}

fn illegal_char(s: &str) -> bool {
    s.chars().any(|c| {
        let u = c as u32;
        (u < 0x20 && c != '\t' && c != '\n' && c != '\r') || u == 0xFFFE || u == 0xFFFF
    })
}

/// Parse a whole XML document into a tree. Errors: tokenizer errors, mismatched tags, trailing
/// garbage, illegal characters.
pub fn parse_xml(data: &[u8]) -> Result<El, String> {
    let s = std::str::from_utf8(data).map_err(|e| format!("not utf-8: {}", e))?;
    let s = s.strip_prefix('\u{feff}').unwrap_or(s);
    let mut reader = Reader::from_str(s);
    reader.config_mut().trim_text(false);
    reader.config_mut().check_end_names = true;
    let mut stack: Vec<El> = vec![El::default()];
    loop {
        match reader.read_event() {
            Ok(Event::Start(e)) => {
                let mut el = El { name: local(e.name().as_ref()), ..Default::default() };
                let mut seen = BTreeSet::new();
                for a in e.attributes() {
                    let a = a.map_err(|x| format!("attribute error: {}", x))?;
                    let k = String::from_utf8_lossy(a.key.as_ref()).to_string();
                    let v = a.unescape_value().map_err(|x| format!("attr unescape: {}", x))?.to_string();
                    if illegal_char(&v) {
                        return Err(format!("illegal character in attribute {}", k));
                    }
                    if !seen.insert(k.clone()) {
                        return Err(format!("duplicate attribute {}", k));
                    }
                    el.attrs.push((k, v));
                }
                stack.push(el);
            }
            Ok(Event::Empty(e)) => {
                let mut el = El { name: local(e.name().as_ref()), ..Default::default() };
                let mut seen = BTreeSet::new();
                for a in e.attributes() {
                    let a = a.map_err(|x| format!("attribute error: {}", x))?;
                    let k = String::from_utf8_lossy(a.key.as_ref()).to_string();
                    let v = a.unescape_value().map_err(|x| format!("attr unescape: {}", x))?.to_string();
                    if illegal_char(&v) {
                        return Err(format!("illegal character in attribute {}", k));
                    }
                    if !seen.insert(k.clone()) {
                        return Err(format!("duplicate attribute {}", k));
                    }
                    el.attrs.push((k, v));
                }
                stack.last_mut().unwrap().children.push(el);
            }
            Ok(Event::End(_)) => {
                if stack.len() < 2 {
                    return Err("unbalanced end tag".into());
                }
                let el = stack.pop().unwrap();
                stack.last_mut().unwrap().children.push(el);
            }
            Ok(Event::Text(t)) => {
                let v = t.unescape().map_err(|x| format!("text unescape: {}", x))?;
                if illegal_char(&v) {
                    return Err("illegal character in text".into());
                }
                if stack.len() == 1 {
                    if !v.trim().is_empty() {
                        return Err("text outside root element".into());
                    }
                } else {
                    stack.last_mut().unwrap().text.push_str(&v);
                }
            }
            Ok(Event::CData(t)) => {
                let v = String::from_utf8_lossy(&t).to_string();
                stack.last_mut().unwrap().text.push_str(&v);
            }
            Ok(Event::Eof) => break,
            Ok(_) => {}
            Err(e) => return Err(format!("xml error at {}: {}", reader.buffer_position(), e)),
        }
    }
    if stack.len() != 1 {
        return Err(format!("unclosed element <{}>", stack.last().unwrap().name));
    }
    let mut root = stack.pop().unwrap();
    if root.children.len() != 1 {
        return Err(format!("{} root elements", root.children.len()));
    }
    Ok(root.children.pop().unwrap())
}

#[derive(Clone, Debug, Default, Serialize, Deserialize, PartialEq)]
pub struct DCell {
    pub t: String,
    /// decoded value: for t="s" the shared string's text, for inlineStr the inline text, else <v>
    pub v: String,
    pub f: Option<String>,
    pub s: u32,
}

#[derive(Clone, Debug, Default, Serialize, Deserialize, PartialEq)]
pub struct DHyper {
    pub cell: String,
    pub target: Option<String>,
    pub location: Option<String>,
    pub tooltip: Option<String>,
}

#[derive(Clone, Debug, Default, Serialize, Deserialize, PartialEq)]
pub struct DSheet {
    pub name: String,
    pub state: String,
    pub part: String,
    pub cells: BTreeMap<String, DCell>,
    pub merges: BTreeSet<String>,
    pub hyperlinks: Vec<DHyper>,
    pub comments: Vec<(String, String, String)>,
    /// (type suffix, target, external)
    pub rels: Vec<(String, String, bool)>,
    pub children_order: Vec<String>,
    pub shared_string_refs: Vec<usize>,
    pub inline_strings: Vec<String>,
    /// sheet-level annotations decoded by ECMA-376 names (see `decode_annotations`)
    pub annot: serde_json::Value,
}

#[derive(Clone, Debug, Default, Serialize, Deserialize, PartialEq)]
pub struct Decoded {
    pub parts: Vec<String>,
    pub sheets: Vec<DSheet>,
    pub shared_strings: Vec<String>,
    pub sst_count: Option<u64>,
    pub sst_unique: Option<u64>,
    pub defined_names: Vec<(String, Option<u32>, String)>,
    pub active_tab: u32,
    pub n_cell_xfs: usize,
    pub n_fonts: usize,
    pub n_fills: usize,
    pub n_borders: usize,
    pub n_num_fmts: usize,
    pub n_dxfs: usize,
    pub errors: Vec<String>,
}

pub fn read_zip(bytes: &[u8]) -> Result<BTreeMap<String, Vec<u8>>, String> {
    let mut ar = zip::ZipArchive::new(std::io::Cursor::new(bytes)).map_err(|e| format!("zip open: {}", e))?;
    let mut out = BTreeMap::new();
    for i in 0..ar.len() {
        let mut f = ar.by_index(i).map_err(|e| format!("zip entry {}: {}", i, e))?;
        let name = f.name().to_string();
        let mut v = Vec::new();
        // read_to_end verifies the CRC at EOF
        f.read_to_end(&mut v).map_err(|e| format!("zip read {}: {}", name, e))?;
        if out.insert(name.clone(), v).is_some() {
            return Err(format!("duplicate part name {}", name));
        }
    }
    Ok(out)
}

/// Verify that the archive is complete: end-of-central-directory is the last thing in the file.
pub fn zip_tail_ok(bytes: &[u8]) -> bool {
    // EOCD signature within the last 22 bytes (the library writes no archive comment)
    if bytes.len() < 22 {
        return false;
    }
    let t = &bytes[bytes.len() - 22..];
    t[0..4] == [0x50, 0x4b, 0x05, 0x06] && t[20] == 0 && t[21] == 0
}

fn resolve(base_dir: &str, target: &str) -> String {
    if let Some(t) = target.strip_prefix('/') {
        return t.to_string();
    }
    let mut parts: Vec<&str> = if base_dir.is_empty() { vec![] } else { base_dir.split('/').collect() };
    for seg in target.split('/') {
        match seg {
            ".." => {
                parts.pop();
            }
            "." | "" => {}
            s => parts.push(s),
        }
    }
    parts.join("/")
}

fn rels_path(part: &str) -> String {
    match part.rfind('/') {
        Some(i) => format!("{}/_rels/{}.rels", &part[..i], &part[i + 1..]),
        None => format!("_rels/{}.rels", part),
    }
}

fn dir_of(part: &str) -> String {
    match part.rfind('/') {
        Some(i) => part[..i].to_string(),
        None => String::new(),
    }
}

pub struct Rel {
    pub id: String,
    pub typ: String,
    pub target: String,
    pub external: bool,
}

fn read_rels(files: &BTreeMap<String, Vec<u8>>, part: &str, errors: &mut Vec<String>) -> Vec<Rel> {
    let rp = rels_path(part);
    let mut out = Vec::new();
    if let Some(data) = files.get(&rp) {
        match parse_xml(data) {
            Ok(root) => {
                let mut ids = BTreeSet::new();
                for r in root.kids("Relationship") {
                    let id = r.attr("Id").unwrap_or("").to_string();
                    if !ids.insert(id.clone()) {
                        errors.push(format!("{}: duplicate relationship id {}", rp, id));
                    }
                    let external = r.attr("TargetMode") == Some("External");
                    let target = r.attr("Target").unwrap_or("").to_string();
                    if !external {
                        let t = resolve(&dir_of(part), &target);
                        if !files.contains_key(&t) {
                            errors.push(format!("{}: relationship {} -> {} does not exist", rp, id, t));
                        }
                    }
                    out.push(Rel { id, typ: r.attr("Type").unwrap_or("").to_string(), target, external });
                }
            }
            Err(e) => errors.push(format!("{}: {}", rp, e)),
        }
    }
    out
}

/// ST_Xstring (ECMA-376 Part 1 22.9.2.19): `_xHHHH_` stands for the character U+HHHH
pub fn xstring(s: &str) -> String {
    let b: Vec<char> = s.chars().collect();
    let mut out = String::new();
    let mut i = 0;
    while i < b.len() {
        if b[i] == '_' && i + 6 < b.len() && b[i + 1] == 'x' && b[i + 6] == '_' {
            let h: String = b[i + 2..i + 6].iter().collect();
            if h.chars().all(|c| c.is_ascii_hexdigit()) {
                if let Some(c) = u32::from_str_radix(&h, 16).ok().and_then(char::from_u32) {
                    out.push(c);
                    i += 7;
                    continue;
                }
            }
        }
        out.push(b[i]);
        i += 1;
    }
    out
}

fn si_text(si: &El) -> String {
    // text of a CT_Rst: <t> plus every <r><t>; phonetic runs <rPh> are not part of the value
    let mut s = String::new();
    for c in &si.children {
        match c.name.as_str() {
            "t" => s.push_str(&xstring(&c.text)),
            "r" => {
                for t in c.kids("t") {
                    s.push_str(&xstring(&t.text));
                }
            }
            _ => {}
        }
    }
    s
}

pub const WORKSHEET_CHILD_ORDER: &[&str] = &[
    "sheetPr", "dimension", "sheetViews", "sheetFormatPr", "cols", "sheetData", "sheetCalcPr", "sheetProtection",
    "protectedRanges", "scenarios", "autoFilter", "sortState", "dataConsolidate", "customSheetViews", "mergeCells",
    "phoneticPr", "conditionalFormatting", "dataValidations", "hyperlinks", "printOptions", "pageMargins", "pageSetup",
    "headerFooter", "rowBreaks", "colBreaks", "customProperties", "cellWatches", "ignoredErrors", "smartTags",
    "drawing", "legacyDrawing", "legacyDrawingHF", "drawingHF", "picture", "oleObjects", "controls", "webPublishItems",
    "tableParts", "extLst",
];

pub fn col_row(r: &str) -> Option<(u32, u32)> {
    let mut col: u32 = 0;
    let mut i = 0;
    let b = r.as_bytes();
    while i < b.len() && b[i].is_ascii_uppercase() {
        col = col * 26 + (b[i] - b'A' + 1) as u32;
        i += 1;
    }
    if i == 0 || i == b.len() {
        return None;
    }
    let row: u32 = r[i..].parse().ok()?;
    Some((col, row))
}

pub fn decode(bytes: &[u8]) -> Result<Decoded, String> {
    if !zip_tail_ok(bytes) {
        return Err("archive tail: no end-of-central-directory at end of file".into());
    }
    let files = read_zip(bytes)?;
    decode_files(&files)
}

pub fn decode_files(files: &BTreeMap<String, Vec<u8>>) -> Result<Decoded, String> {
    let mut d = Decoded::default();
    d.parts = files.keys().cloned().collect();
    let mut errors: Vec<String> = Vec::new();

    // every xml part must be well formed
    let mut trees: BTreeMap<String, El> = BTreeMap::new();
    for (name, data) in files {
        if name.ends_with(".xml") || name.ends_with(".rels") || name.ends_with(".vml") {
            match parse_xml(data) {
                Ok(t) => {
                    trees.insert(name.clone(), t);
                }
                Err(e) => {
                    if name.ends_with(".vml") {
                        // legacy VML as written by Office is frequently not well-formed XML (<br>);
                        // not judged
                        let _ = &e;
                    } else {
                        return Err(format!("{}: {}", name, e));
                    }
                }
            }
        }
    }

    // content types
    let ct = trees.get("[Content_Types].xml").ok_or("no [Content_Types].xml")?;
    let mut defaults = BTreeSet::new();
    let mut overrides = BTreeSet::new();
    for c in &ct.children {
        match c.name.as_str() {
            "Default" => {
                defaults.insert(c.attr("Extension").unwrap_or("").to_lowercase());
            }
            "Override" => {
                let p = c.attr("PartName").unwrap_or("").trim_start_matches('/').to_string();
                if !overrides.insert(p.clone()) {
                    errors.push(format!("content types: duplicate override {}", p));
                }
                if !files.contains_key(&p) {
                    errors.push(format!("content types: override for missing part {}", p));
                }
            }
            _ => {}
        }
    }
    for name in files.keys() {
        if name == "[Content_Types].xml" {
            continue;
        }
        let ext = name.rsplit('.').next().unwrap_or("").to_lowercase();
        if !overrides.contains(name) && !defaults.contains(&ext) {
            errors.push(format!("no content type for part {}", name));
        }
    }

    // root rels -> workbook
    let root_rels = read_rels(files, "", &mut errors);
    let wb_part = root_rels
        .iter()
        .find(|r| r.typ.ends_with("/officeDocument"))
        .map(|r| resolve("", &r.target))
        .ok_or("no officeDocument relationship")?;
    let wb = trees.get(&wb_part).ok_or(format!("workbook part {} missing", wb_part))?;
    let wb_rels = read_rels(files, &wb_part, &mut errors);
    let wb_dir = dir_of(&wb_part);

    // shared strings
    let mut sst_part = None;
    let mut styles_part = None;
    for r in &wb_rels {
        if r.typ.ends_with("/sharedStrings") {
            sst_part = Some(resolve(&wb_dir, &r.target));
        }
        if r.typ.ends_with("/styles") {
            styles_part = Some(resolve(&wb_dir, &r.target));
        }
    }
    if let Some(p) = &sst_part {
        if let Some(t) = trees.get(p) {
            d.sst_count = t.attr("count").and_then(|v| v.parse().ok());
            d.sst_unique = t.attr("uniqueCount").and_then(|v| v.parse().ok());
            for si in t.kids("si") {
                d.shared_strings.push(si_text(si));
            }
        }
    }
    if let Some(p) = &styles_part {
        if let Some(t) = trees.get(p) {
            let cnt = |n: &str, k: &str| t.child(n).map(|c| c.kids(k).count()).unwrap_or(0);
            d.n_cell_xfs = cnt("cellXfs", "xf");
            d.n_fonts = cnt("fonts", "font");
            d.n_fills = cnt("fills", "fill");
            d.n_borders = cnt("borders", "border");
            d.n_num_fmts = cnt("numFmts", "numFmt");
            d.n_dxfs = cnt("dxfs", "dxf");
        }
    }

    // workbook
    if let Some(bv) = wb.child("bookViews").and_then(|b| b.child("workbookView")) {
        d.active_tab = bv.attr("activeTab").and_then(|v| v.parse().ok()).unwrap_or(0);
    }
    if let Some(dn) = wb.child("definedNames") {
        for n in dn.kids("definedName") {
            d.defined_names.push((
                n.attr("name").unwrap_or("").to_string(),
                n.attr("localSheetId").and_then(|v| v.parse().ok()),
                n.text.clone(),
            ));
        }
    }
    let mut names = BTreeSet::new();
    let mut sheet_ids = BTreeSet::new();
    let mut sheet_parts = BTreeSet::new();
    let sheets_el = wb.child("sheets").ok_or("workbook has no <sheets>")?;
    for s in sheets_el.kids("sheet") {
        let name = s.attr("name").unwrap_or("").to_string();
        if !names.insert(name.to_lowercase()) {
            errors.push(format!("duplicate sheet name {}", name));
        }
        let sid = s.attr("sheetId").unwrap_or("").to_string();
        if !sheet_ids.insert(sid.clone()) {
            errors.push(format!("duplicate sheetId {}", sid));
        }
        let rid = s.attr("r:id").unwrap_or("");
        let rel = wb_rels.iter().find(|r| r.id == rid);
        let mut ds = DSheet { name: name.clone(), state: s.attr("state").unwrap_or("visible").to_string(), ..Default::default() };
        match rel {
            None => {
                errors.push(format!("sheet {}: r:id {} not in workbook rels", name, rid));
                d.sheets.push(ds);
                continue;
            }
            Some(r) => {
                ds.part = resolve(&wb_dir, &r.target);
            }
        }
        if !sheet_parts.insert(ds.part.clone()) {
            errors.push(format!("two sheets share part {}", ds.part));
        }
        let rel_type = rel.map(|r| r.typ.clone()).unwrap_or_default();
        if !rel_type.ends_with("/worksheet") {
            // chartsheet / dialogsheet: not decoded further
            d.sheets.push(ds);
            continue;
        }
        let tree = match trees.get(&ds.part) {
            Some(t) => t,
            None => {
                errors.push(format!("sheet part {} missing or not xml", ds.part));
                d.sheets.push(ds);
                continue;
            }
        };
        let srels = read_rels(files, &ds.part, &mut errors);
        for r in &srels {
            let suffix = r.typ.rsplit('/').next().unwrap_or("").to_string();
            ds.rels.push((suffix, r.target.clone(), r.external));
        }
        ds.children_order = tree.children.iter().map(|c| c.name.clone()).collect();
        // sheetData
        if let Some(sd) = tree.child("sheetData") {
            let mut last_row = 0u32;
            for row in sd.kids("row") {
                let rn: u32 = row.attr("r").and_then(|v| v.parse().ok()).unwrap_or(last_row + 1);
                if rn <= last_row {
                    errors.push(format!("{}: rows not strictly ascending at {}", ds.part, rn));
                }
                if rn == 0 || rn > 1048576 {
                    errors.push(format!("{}: row {} out of range", ds.part, rn));
                }
                last_row = rn;
                let mut last_col = 0u32;
                for c in row.kids("c") {
                    let r = c.attr("r").unwrap_or("").to_string();
                    match col_row(&r) {
                        Some((col, rr)) => {
                            if rr != rn {
                                errors.push(format!("{}: cell {} in row {}", ds.part, r, rn));
                            }
                            if col <= last_col {
                                errors.push(format!("{}: cells not strictly ascending at {}", ds.part, r));
                            }
                            if col == 0 || col > 16384 {
                                errors.push(format!("{}: cell {} out of range", ds.part, r));
                            }
                            last_col = col;
                        }
                        None => errors.push(format!("{}: bad cell reference {:?}", ds.part, r)),
                    }
                    let t = c.attr("t").unwrap_or("n").to_string();
                    let s: u32 = c.attr("s").and_then(|v| v.parse().ok()).unwrap_or(0);
                    if styles_part.is_some() && s as usize >= d.n_cell_xfs.max(1) {
                        errors.push(format!("{}: cell {} style index {} outside cellXfs ({})", ds.part, r, s, d.n_cell_xfs));
                    }
                    let raw_v = c.child("v").map(|v| v.text.clone());
                    let f = c.child("f").map(|f| f.text.clone());
                    let v = match t.as_str() {
                        "s" => match raw_v.as_deref().and_then(|x| x.trim().parse::<usize>().ok()) {
                            Some(i) => {
                                ds.shared_string_refs.push(i);
                                match d.shared_strings.get(i) {
                                    Some(s) => s.clone(),
                                    None => {
                                        errors.push(format!("{}: cell {} shared string index {} outside table ({})", ds.part, r, i, d.shared_strings.len()));
                                        String::new()
                                    }
                                }
                            }
                            None => {
                                if raw_v.is_some() {
                                    errors.push(format!("{}: cell {} has t=s with non-numeric <v>", ds.part, r));
                                }
                                String::new()
                            }
                        },
                        "inlineStr" => {
                            let s = c.child("is").map(si_text).unwrap_or_default();
                            ds.inline_strings.push(s.clone());
                            s
                        }
                        _ => raw_v.clone().unwrap_or_default(),
                    };
                    if raw_v.is_none() && f.is_none() && t != "inlineStr" && s == 0 && c.children.is_empty() {
                        // an empty unstyled <c/>: carries nothing
                        continue;
                    }
                    ds.cells.insert(r, DCell { t, v, f, s });
                }
            }
        }
        for cf in tree.kids("conditionalFormatting") {
            for r in cf.kids("cfRule") {
                if let Some(x) = r.attr("dxfId") {
                    if x.parse::<usize>().map(|i| i >= d.n_dxfs).unwrap_or(true) {
                        errors.push(format!("{}: cfRule dxfId {} outside dxfs ({})", ds.part, x, d.n_dxfs));
                    }
                }
            }
        }
        if let Some(mc) = tree.child("mergeCells") {
            for m in mc.kids("mergeCell") {
                let r = m.attr("ref").unwrap_or("").to_string();
                if !ds.merges.insert(r.clone()) {
                    errors.push(format!("{}: duplicate merge {}", ds.part, r));
                }
            }
        }
        if let Some(hl) = tree.child("hyperlinks") {
            for h in hl.kids("hyperlink") {
                let mut dh = DHyper {
                    cell: h.attr("ref").unwrap_or("").to_string(),
                    target: None,
                    location: h.attr("location").map(|s| s.to_string()),
                    tooltip: h.attr("tooltip").map(|s| s.to_string()),
                };
                if let Some(rid) = h.attr("r:id") {
                    match srels.iter().find(|r| r.id == rid) {
                        Some(r) => dh.target = Some(r.target.clone()),
                        None => errors.push(format!("{}: hyperlink {} r:id {} not in sheet rels", ds.part, dh.cell, rid)),
                    }
                }
                ds.hyperlinks.push(dh);
            }
        }
        // other r:id references of the sheet must resolve
        for c in &tree.children {
            if matches!(c.name.as_str(), "drawing" | "legacyDrawing" | "legacyDrawingHF" | "picture") {
                if let Some(rid) = c.attr("r:id") {
                    if !srels.iter().any(|r| r.id == rid) {
                        errors.push(format!("{}: <{}> r:id {} not in sheet rels", ds.part, c.name, rid));
                    }
                }
            }
            if c.name == "tableParts" {
                for tp in c.kids("tablePart") {
                    if let Some(rid) = tp.attr("r:id") {
                        if !srels.iter().any(|r| r.id == rid) {
                            errors.push(format!("{}: tablePart r:id {} not in sheet rels", ds.part, rid));
                        }
                    }
                }
            }
        }
        // comments
        for r in &srels {
            if r.typ.ends_with("/comments") && !r.external {
                let cp = resolve(&dir_of(&ds.part), &r.target);
                if let Some(ct) = trees.get(&cp) {
                    let authors: Vec<String> = ct.child("authors").map(|a| a.kids("author").map(|x| x.text.clone()).collect()).unwrap_or_default();
                    if let Some(cl) = ct.child("commentList") {
                        for c in cl.kids("comment") {
                            let aid: usize = c.attr("authorId").and_then(|v| v.parse().ok()).unwrap_or(usize::MAX);
                            let author = match authors.get(aid) {
                                Some(a) => a.clone(),
                                None => {
                                    errors.push(format!("{}: comment authorId {} outside authors ({})", cp, aid, authors.len()));
                                    String::new()
                                }
                            };
                            let text = c.child("text").map(si_text).unwrap_or_default();
                            ds.comments.push((c.attr("ref").unwrap_or("").to_string(), author, text));
                        }
                    }
                }
            }
        }
        ds.comments.sort();
        ds.annot = decode_annotations(tree);
        d.sheets.push(ds);
    }
    // definedName localSheetId inside sheet list
    for (n, l, _) in &d.defined_names {
        if let Some(l) = l {
            if *l as usize >= d.sheets.len() {
                errors.push(format!("definedName {} localSheetId {} outside sheet list", n, l));
            }
        }
    }
    if (d.active_tab as usize) >= d.sheets.len().max(1) {
        errors.push(format!("activeTab {} outside sheet list ({})", d.active_tab, d.sheets.len()));
    }
    d.errors = errors;
    Ok(d)
}

impl Decoded {
    /// all strings stored anywhere as cell text: the shared string table and inline strings
    pub fn all_stored_strings(&self) -> Vec<String> {
        let mut v = self.shared_strings.clone();
        for s in &self.sheets {
            v.extend(s.inline_strings.iter().cloned());
        }
        v
    }

    /// content projection used for "same content" comparisons: per sheet name, cells (t, v, f), merges,
    /// hyperlinks joined with their targets, comments; defined names; sheet order. Style indexes and
    /// table sizes are not part of it.
    /// non-empty entries of the shared string table that no cell of any sheet refers to
    pub fn unreferenced_strings(&self) -> Vec<(usize, String)> {
        let mut refs = std::collections::BTreeSet::new();
        for s in &self.sheets {
            refs.extend(s.shared_string_refs.iter().cloned());
        }
        self.shared_strings.iter().enumerate().filter(|(i, t)| !t.is_empty() && !refs.contains(i)).map(|(i, t)| (i, t.clone())).collect()
    }

    pub fn content(&self) -> serde_json::Value {
        let sheets: Vec<serde_json::Value> = self
            .sheets
            .iter()
            .map(|s| {
                let cells: BTreeMap<&String, (String, &String, &Option<String>)> =
                    s.cells.iter().map(|(k, c)| (k, (norm_t(&c.t), &c.v, &c.f))).collect();
                let mut h: Vec<_> = s.hyperlinks.iter().map(|h| (h.cell.clone(), h.target.clone(), h.location.clone())).collect();
                h.sort();
                serde_json::json!({"name": s.name, "state": s.state, "cells": cells, "merges": s.merges, "hyperlinks": h, "comments": s.comments})
            })
            .collect();
        let mut dn = self.defined_names.clone();
        dn.sort();
        serde_json::json!({"sheets": sheets, "defined_names": dn, "active_tab": self.active_tab})
    }
}

fn norm_t(t: &str) -> String {
    match t {
        "s" | "inlineStr" => "text".to_string(),
        o => o.to_string(),
    }
}


fn lower_first(s: &str) -> String {
    let mut c = s.chars();
    match c.next() {
        Some(f) => f.to_lowercase().collect::<String>() + c.as_str(),
        None => String::new(),
    }
}

/// `Whole` (Debug of the library's enum) vs `whole` (attribute value in the file)
pub fn enum_name(debug: &str) -> String {
    lower_first(debug)
}

/// Sheet-level annotations of a worksheet part, by the names and defaults of ECMA-376 Part 1 §18.3.1.
/// Only attributes with an unambiguous schema meaning are decoded (strings: absent = ""; type of a
/// validation: absent = none).
pub fn decode_annotations(ws: &El) -> serde_json::Value {
    use serde_json::json;
    let a = |e: &El, k: &str| e.attr(k).unwrap_or("").to_string();
    let mut validations: Vec<serde_json::Value> = Vec::new();
    if let Some(dvs) = ws.child("dataValidations") {
        for dv in dvs.kids("dataValidation") {
            validations.push(json!({
                "sqref": a(dv, "sqref"),
                "type": dv.attr("type").unwrap_or("none"),
                "f1": dv.child("formula1").map(|f| f.text.clone()).unwrap_or_default(),
                "f2": dv.child("formula2").map(|f| f.text.clone()).unwrap_or_default(),
                "prompt_title": a(dv, "promptTitle"), "prompt": a(dv, "prompt"),
                "error_title": a(dv, "errorTitle"), "error": a(dv, "error"),
            }));
        }
    }
    validations.sort_by_key(|v| v.to_string());
    let mut cfs: Vec<serde_json::Value> = Vec::new();
    for cf in ws.kids("conditionalFormatting") {
        let rules: Vec<serde_json::Value> = cf
            .kids("cfRule")
            .map(|r| json!({"type": a(r, "type"), "priority": a(r, "priority"), "text": a(r, "text"), "formula": r.child("formula").map(|f| f.text.clone())}))
            .collect();
        cfs.push(json!({"sqref": a(cf, "sqref"), "rules": rules}));
    }
    cfs.sort_by_key(|v| v.to_string());
    let view = ws.child("sheetViews").and_then(|v| v.child("sheetView"));
    let pane = view.and_then(|v| v.child("pane")).map(|p| {
        json!({
            "h": p.attr("xSplit").and_then(|x| x.parse::<f64>().ok()).unwrap_or(0.0),
            "v": p.attr("ySplit").and_then(|x| x.parse::<f64>().ok()).unwrap_or(0.0),
            "tl": a(p, "topLeftCell"),
            "state": p.attr("state").unwrap_or("split"),
        })
    });
    let prot = ws.child("sheetProtection").map(|p| json!({"alg": a(p, "algorithmName"), "hash": a(p, "hashValue"), "salt": a(p, "saltValue"), "spin": a(p, "spinCount")}));
    json!({
        "validations": validations,
        "cond_formats": cfs,
        "auto_filter": ws.child("autoFilter").map(|f| a(f, "ref")),
        "tab_color": ws.child("sheetPr").and_then(|p| p.child("tabColor")).map(|c| match (c.attr("rgb"), c.attr("indexed"), c.attr("theme")) {
            (Some(r), _, _) => r.to_string(),
            (_, Some(i), _) => format!("indexed:{}", i),
            (_, _, Some(t)) => format!("theme:{}", t),
            _ => "auto".to_string(),
        }),
        "pane": pane,
        "header": ws.child("headerFooter").and_then(|h| h.child("oddHeader")).map(|h| h.text.clone()).unwrap_or_default(),
        "footer": ws.child("headerFooter").and_then(|h| h.child("oddFooter")).map(|h| h.text.clone()).unwrap_or_default(),
        "protection": prot,
    })
}
