//! C16 — concurrent saves of a workbook or its clones equal sequential saves. 2..3 shuttle threads,
//! each calling write_writer(_light) into its own Vec, on the same Arc<Spreadsheet>, on clones made
//! after different edits (shared string table, different cell sets), or a mix. Real code: the whole
//! writer. Simulated: the thread scheduler (S1; every table lock operation and sched_point is a
//! scheduling point; the decisions are ours, recorded, replayable), hash keys (S5).
#![cfg(umya_verif_sched)]

use crate::decode;
use crate::engine::*;
use crate::rng::Rng;
use crate::world::{self, Op};
use serde::{Deserialize, Serialize};
use serde_json::{json, Value};
use shuttle::scheduler::{Schedule, Scheduler, Task, TaskId};
use std::collections::BTreeMap;
use std::sync::{Arc, Mutex};
use umya_spreadsheet as umya;

// ------------------------------------------------------------------------------------------------
// scheduler: seeded, recording, replayable
// ------------------------------------------------------------------------------------------------

#[derive(Clone, Debug, Default)]
pub struct SchedLog {
    pub decisions: Vec<usize>,
    pub diverged: bool,
    pub switches: u64,
}

pub struct SimSched {
    mode: String,
    rng: Rng,
    data: Rng,
    replay: Vec<usize>,
    pos: usize,
    done: bool,
    log: Arc<Mutex<SchedLog>>,
    // pct
    prio: BTreeMap<usize, u64>,
    change_points: Vec<usize>,
    low: u64,
}

impl SimSched {
    pub fn new(mode: &str, seed: u64, depth: usize, steps_hint: usize, replay: Vec<usize>, log: Arc<Mutex<SchedLog>>) -> SimSched {
        let mut rng = Rng::new(seed);
        let mut cps = Vec::new();
        if mode == "pct" {
            for _ in 0..depth.saturating_sub(1) {
                cps.push(rng.usize(steps_hint.max(1)));
            }
        }
        SimSched {
            mode: mode.to_string(),
            data: Rng::new(crate::rng::mix(seed, 99)),
            rng,
            replay,
            pos: 0,
            done: false,
            log,
            prio: BTreeMap::new(),
            change_points: cps,
            low: 0,
        }
    }
}

impl Scheduler for SimSched {
    fn new_execution(&mut self) -> Option<Schedule> {
        if self.done {
            return None;
        }
        self.done = true;
        Some(Schedule::new(0))
    }

    fn next_task(&mut self, runnable: &[&Task], current: Option<TaskId>, _is_yielding: bool) -> Option<TaskId> {
        let mut ids: Vec<usize> = runnable.iter().map(|t| usize::from(t.id())).collect();
        ids.sort();
        let step = self.pos;
        self.pos += 1;
        let choice = match self.mode.as_str() {
            "replay" => match self.replay.get(step) {
                Some(c) if ids.contains(c) => *c,
                _ => {
                    self.log.lock().unwrap().diverged = true;
                    ids[0]
                }
            },
            "pct" => {
                for id in &ids {
                    if !self.prio.contains_key(id) {
                        // random initial priority, always above the "lowered" band
                        let p = 1_000_000 + self.rng.below(1_000_000);
                        self.prio.insert(*id, p);
                    }
                }
                if self.change_points.contains(&step) {
                    if let Some(c) = current {
                        self.low += 1;
                        self.prio.insert(usize::from(c), 1000 - self.low.min(999));
                    }
                }
                *ids.iter().max_by_key(|id| self.prio[*id]).unwrap()
            }
            _ => ids[self.rng.usize(ids.len())],
        };
        let mut l = self.log.lock().unwrap();
        if let Some(c) = current {
            if usize::from(c) != choice {
                l.switches += 1;
            }
        }
        l.decisions.push(choice);
        Some(TaskId::from(choice))
    }

    fn next_u64(&mut self) -> u64 {
        self.data.next_u64()
    }
}

// ------------------------------------------------------------------------------------------------
// trace of table operations (order of registrations / dumps across threads)
// ------------------------------------------------------------------------------------------------

thread_local! {
    static TABLE_OPS: std::cell::RefCell<Vec<(usize, &'static str)>> = const { std::cell::RefCell::new(Vec::new()) };
    static TRACING: std::cell::Cell<bool> = const { std::cell::Cell::new(false) };
}

fn trace_cb(tag: &'static str) {
    if TRACING.with(|t| t.get()) {
        let me: usize = shuttle::current::me().into();
        TABLE_OPS.with(|o| o.borrow_mut().push((me, tag)));
    }
}

// ------------------------------------------------------------------------------------------------
// case
// ------------------------------------------------------------------------------------------------

#[derive(Clone, Debug, Serialize, Deserialize)]
pub struct HOp {
    pub h: usize,
    pub op: Op,
}

static INTRUDER_COUNTER: std::sync::atomic::AtomicU64 = std::sync::atomic::AtomicU64::new(0);

#[derive(Clone, Debug, Serialize, Deserialize)]
pub struct Saver {
    /// "shared": saves the base workbook through a shared reference; "clone": saves its own clone
    pub kind: String,
    pub light: bool,
}

fn text_model(ops: &[&Op]) -> BTreeMap<(usize, String), String> {
    // intent of the generator: last writer wins per (sheet, cell); only text kinds are tracked
    let mut m = BTreeMap::new();
    for op in ops {
        match op {
            Op::SetText { sheet, cell, v } => {
                m.insert((*sheet, cell.clone()), v.clone());
            }
            Op::SetRich { sheet, cell, parts } => {
                m.insert((*sheet, cell.clone()), parts.concat());
            }
            Op::SetNum { sheet, cell, .. } | Op::SetBool { sheet, cell, .. } | Op::RemoveCell { sheet, cell } | Op::SetBlank { sheet, cell } | Op::SetFormula { sheet, cell, .. } => {
                m.remove(&(*sheet, cell.clone()));
            }
            _ => {}
        }
    }
    m
}

struct Results {
    files: Vec<Result<Vec<u8>, String>>,
    solo: Vec<Result<Vec<u8>, String>>,
    reload_dump: Vec<Result<Value, String>>,
    table_ops: Vec<(usize, &'static str)>,
}

fn build_base(case: &Value) -> Result<umya::Spreadsheet, String> {
    let base_ops: Vec<Op> = serde_json::from_value(case["base_ops"].clone()).unwrap_or_default();
    let mut b = umya::new_file();
    for i in 1..case["sheets"].as_u64().unwrap_or(1) {
        let _ = b.new_sheet(format!("S{}", i + 1));
    }
    world::apply_all(&mut b, &base_ops);
    if case["presave"].as_bool().unwrap_or(false) {
        world::save_mem(&b, false)?;
    }
    match case["reload"].as_str().unwrap_or("none") {
        "eager" => {
            let bytes = world::save_mem(&b, false)?;
            b = world::load_mem(&bytes, true)?;
        }
        "lazy" => {
            let bytes = world::save_mem(&b, false)?;
            b = world::load_mem(&bytes, false)?;
            // materialise all but the last sheet: the last stays raw (copied bytes carry old indexes)
            let n = b.get_sheet_count();
            for i in 0..n.saturating_sub(1) {
                b.read_sheet(i);
            }
        }
        _ => {}
    }
    Ok(b)
}

fn scenario(case: &Value, res: &Arc<Mutex<Option<Results>>>) {
    let savers: Vec<Saver> = serde_json::from_value(case["savers"].clone()).unwrap_or_default();
    let clone_ops: Vec<HOp> = serde_json::from_value(case["clone_ops"].clone()).unwrap_or_default();
    let lazy = case["reload"].as_str() == Some("lazy");
    // workbooks under test (share one table)
    let base = build_base(case).expect("build base");
    let mut books: Vec<Arc<umya::Spreadsheet>> = Vec::new();
    let mut clones: Vec<Option<umya::Spreadsheet>> = Vec::new();
    for (j, s) in savers.iter().enumerate() {
        if s.kind == "clone" {
            let mut c = base.clone();
            for ho in clone_ops.iter().filter(|o| o.h == j) {
                if lazy {
                    // keep the last sheet raw: redirect edits away from it
                    let n = c.get_sheet_count();
                    if n > 1 {
                        let mut op = ho.op.clone();
                        redirect_sheet(&mut op, n - 1);
                        world::apply(&mut c, &op);
                        continue;
                    }
                }
                world::apply(&mut c, &ho.op);
            }
            clones.push(Some(c));
        } else {
            clones.push(None);
        }
    }
    let base = Arc::new(base);
    for c in clones {
        match c {
            Some(c) => books.push(Arc::new(c)),
            None => books.push(base.clone()),
        }
    }
    // reference: solo saves of independently rebuilt identical workbooks (fresh, unshared tables)
    let mut solo = Vec::new();
    for (j, s) in savers.iter().enumerate() {
        let r = (|| -> Result<Vec<u8>, String> {
            let mut b = build_base(case)?;
            if s.kind == "clone" {
                for ho in clone_ops.iter().filter(|o| o.h == j) {
                    let n = b.get_sheet_count();
                    if lazy && n > 1 {
                        let mut op = ho.op.clone();
                        redirect_sheet(&mut op, n - 1);
                        world::apply(&mut b, &op);
                    } else {
                        world::apply(&mut b, &ho.op);
                    }
                }
            }
            world::save_mem(&b, s.light)
        })();
        solo.push(r);
    }
    // concurrent saves
    TABLE_OPS.with(|o| o.borrow_mut().clear());
    TRACING.with(|t| t.set(true));
    let mut handles = Vec::new();
    for (j, s) in savers.iter().enumerate() {
        let b = books[j].clone();
        let light = s.light;
        handles.push(shuttle::thread::spawn(move || world::save_mem(&b, light)));
    }
    // an extra saver that goes through another entry point of the library at the same time (its own output
    // is the business of C13/C14; here it only has to leave the other savers alone, and to come back)
    let intruder = case["intruder"].as_str().unwrap_or("none").to_string();
    let intruder_handle = if intruder != "none" {
        let b = base.clone();
        let dir = case["__scratch"].as_str().unwrap_or("/verif/scratch").to_string();
        let id = INTRUDER_COUNTER.fetch_add(1, std::sync::atomic::Ordering::Relaxed);
        Some(shuttle::thread::spawn(move || -> Result<(), String> {
            match intruder.as_str() {
                "pw" => {
                    let p = format!("{}/c16-intruder-{}-{}.xlsx", dir, std::process::id(), id);
                    let r = umya::writer::xlsx::write_with_password(&b, std::path::Path::new(&p), "pw").map_err(|e| format!("{:?}", e));
                    let _ = std::fs::remove_file(&p);
                    r
                }
                "csv" => {
                    let mut c = std::io::Cursor::new(Vec::new());
                    umya::writer::csv::write_writer(&b, &mut c, &umya::structs::CsvWriterOption::default()).map_err(|e| format!("{:?}", e))
                }
                _ => world::save_mem(&b, true).map(|_| ()),
            }
        }))
    } else {
        None
    };
    let mut files = Vec::new();
    for h in handles {
        files.push(match h.join() {
            Ok(r) => r,
            Err(_) => Err("saver thread panicked".to_string()),
        });
    }
    if let Some(h) = intruder_handle {
        match h.join() {
            Ok(Ok(())) => {}
            Ok(Err(e)) => files.push(Err(format!("the saver using another entry point failed: {}", e))),
            Err(_) => files.push(Err("the saver using another entry point panicked".to_string())),
        }
    }
    TRACING.with(|t| t.set(false));
    let table_ops = TABLE_OPS.with(|o| o.borrow().clone());
    // reload through the library's own reader (needs the lock type => inside the execution)
    let mut reload_dump = Vec::new();
    for f in &files {
        reload_dump.push(match f {
            Ok(bytes) => match guarded(|| world::load_mem(bytes, true).map(|b| world::dump_book(&b, false))) {
                Ok(r) => r,
                Err(p) => Err(format!("reader panicked: {}", p)),
            },
            Err(e) => Err(e.clone()),
        });
    }
    *res.lock().unwrap() = Some(Results { files, solo, reload_dump, table_ops });
}

fn redirect_sheet(op: &mut Op, raw_idx: usize) {
    // map any sheet index to one in 0..raw_idx
    let f = |s: &mut usize| {
        if raw_idx > 0 {
            *s %= raw_idx;
        }
    };
    match op {
        Op::SetText { sheet, .. } | Op::SetRich { sheet, .. } | Op::SetNum { sheet, .. } | Op::SetBool { sheet, .. } | Op::SetFormula { sheet, .. } | Op::SetBlank { sheet, .. } | Op::RemoveCell { sheet, .. } => f(sheet),
        _ => {}
    }
}

pub fn execute(case: &Value, scratch: &str) -> Outcome {
    let mut case_with_dir = case.clone();
    case_with_dir["__scratch"] = json!(scratch);
    let case = &case_with_dir;
    let mode = case["sched"]["mode"].as_str().unwrap_or("random").to_string();
    if mode == "search" {
        // used by the minimiser: look for a failing schedule among `tries` seeds
        let tries = case["sched"]["tries"].as_u64().unwrap_or(40);
        let mut last = Outcome::default();
        for t in 0..tries {
            let mut c = case.clone();
            c["sched"]["mode"] = json!(if t % 3 == 2 { "pct" } else { "random" });
            c["sched"]["seed"] = hex64(crate::rng::mix(get_u64(&case["sched"], "seed"), t));
            let o = execute_once(&c);
            if !o.verdicts.is_empty() {
                return o;
            }
            last = o;
        }
        return last;
    }
    execute_once(case)
}

fn execute_once(case: &Value) -> Outcome {
    let mut out = Outcome::default();
    let savers: Vec<Saver> = serde_json::from_value(case["savers"].clone()).unwrap_or_default();
    if savers.len() < 2 {
        out.signature = "trivial".into();
        return out;
    }
    let mode = case["sched"]["mode"].as_str().unwrap_or("random").to_string();
    let seed = get_u64(&case["sched"], "seed");
    let depth = case["sched"]["depth"].as_u64().unwrap_or(3) as usize;
    let hint = case["sched"]["steps_hint"].as_u64().unwrap_or(120) as usize;
    let replay: Vec<usize> = serde_json::from_value(case["schedule"].clone()).unwrap_or_default();
    let log = Arc::new(Mutex::new(SchedLog::default()));
    let sched = SimSched::new(&mode, seed, depth, hint, replay, log.clone());
    let mut cfg = shuttle::Config::new();
    cfg.stack_size = 16 << 20;
    cfg.max_steps = shuttle::MaxSteps::FailAfter(case["max_steps"].as_u64().unwrap_or(200_000) as usize);
    cfg.failure_persistence = shuttle::FailurePersistence::None;
    cfg.silence_warnings = true;
    let res: Arc<Mutex<Option<Results>>> = Arc::new(Mutex::new(None));
    let res2 = res.clone();
    let case2 = case.clone();
    umya::verif_hooks::set_trace(Some(trace_cb));
    let run = guarded(move || {
        let runner = shuttle::Runner::new(sched, cfg);
        runner.run(move || scenario(&case2, &res2));
    });
    let l = log.lock().unwrap().clone();
    let n_savers = savers.len().to_string();
    let facet_mode = case["mode"].as_str().unwrap_or("mix").to_string();
    if let Err(p) = &run {
        let class = if p.contains("deadlock") {
            "C16:deadlock"
        } else if p.contains("max_steps") || p.contains("exceeded") {
            "C16:no-progress"
        } else {
            "C16:panic"
        };
        out.violate(Verdict::new("C16", class, &[("savers", &n_savers)], format!("concurrent saves: {}", p.chars().take(300).collect::<String>())));
    }
    let results = res.lock().unwrap().take();
    // model of each saver's workbook: base ops then its clone ops
    let base_ops: Vec<Op> = serde_json::from_value(case["base_ops"].clone()).unwrap_or_default();
    let clone_ops: Vec<HOp> = serde_json::from_value(case["clone_ops"].clone()).unwrap_or_default();
    let lazy = case["reload"].as_str() == Some("lazy");
    if let Some(r) = &results {
        if let Some(Err(e)) = r.files.get(savers.len()) {
            if run.is_ok() {
                out.violate(Verdict::new("C16", "C16:save-failed", &[("savers", &n_savers), ("who", "other-entry-point")], e.clone()));
            }
        }
        for (j, s) in savers.iter().enumerate() {
            let file = match &r.files[j] {
                Ok(f) => f,
                Err(e) => {
                    if run.is_ok() {
                        out.violate(Verdict::new("C16", "C16:save-failed", &[("savers", &n_savers)], format!("saver {} failed: {}", j, e)));
                    }
                    continue;
                }
            };
            let d = match decode::decode(file) {
                Ok(d) => d,
                Err(e) => {
                    out.violate(Verdict::new("C16", "C16:corrupt-file", &[("savers", &n_savers)], format!("saver {}: file does not decode: {}", j, e)));
                    continue;
                }
            };
            if let Some(e) = d.errors.iter().find(|e| e.contains("shared string index")) {
                out.violate(Verdict::new("C16", "C16:index-outside-table", &[("savers", &n_savers)], format!("saver {}: {}", j, e)));
            }
            // vs the solo save of an identical, independently built workbook
            match &r.solo[j] {
                Ok(sb) => match decode::decode(sb) {
                    Ok(sd) => {
                        if sd.content() != d.content() {
                            let detail = first_cell_diff(&sd, &d).unwrap_or("content differs".into());
                            out.violate(Verdict::new("C16", "C16:wrong-string", &[("savers", &n_savers)], format!("saver {} ({}): {}", j, s.kind, detail)));
                        }
                    }
                    Err(e) => out.harness_error = Some(format!("solo reference does not decode: {}", e)),
                },
                Err(e) => out.harness_error = Some(format!("solo reference save failed: {}", e)),
            }
            // vs the generator's intent (text cells), unless edits were redirected (lazy)
            if !lazy {
                let mut ops: Vec<&Op> = base_ops.iter().collect();
                if s.kind == "clone" {
                    ops.extend(clone_ops.iter().filter(|o| o.h == j).map(|o| &o.op));
                }
                let nsheets = d.sheets.len().max(1);
                for ((sheet, cell), want) in text_model(&ops) {
                    let got = d.sheets.get(sheet % nsheets).and_then(|s| s.cells.get(&cell)).map(|c| c.v.clone());
                    // later ops on an aliased sheet index could overwrite: only compare when indices are canonical
                    if sheet < nsheets && got.as_deref() != Some(want.as_str()) {
                        out.violate(Verdict::new(
                            "C16",
                            "C16:wrong-string",
                            &[("savers", &n_savers)],
                            format!("saver {} ({}): sheet {} cell {} decodes to {:?}, workbook holds {:?}", j, s.kind, sheet, cell, got, want),
                        ));
                        break;
                    }
                }
            }
            // through the library's own reader
            match &r.reload_dump[j] {
                Ok(_) => {}
                Err(e) => out.violate(Verdict::new("C16", "C16:corrupt-file", &[("savers", &n_savers)], format!("saver {}: library cannot reload its file: {}", j, e))),
            }
        }
        // reach
        let regs: Vec<usize> = r.table_ops.iter().filter(|o| o.1 == "sst.set_cell").map(|o| o.0).collect();
        let mut threads_appending: Vec<usize> = regs.clone();
        threads_appending.sort();
        threads_appending.dedup();
        let mut alternations = 0;
        for w in regs.windows(2) {
            if w[0] != w[1] {
                alternations += 1;
            }
        }
        if alternations > 0 {
            out.probe("registrations_of_two_threads_interleaved");
        }
        if r.table_ops.iter().any(|o| o.1 == "sst.write_to") {
            let first_dump = r.table_ops.iter().position(|o| o.1 == "sst.write_to").unwrap();
            if r.table_ops[first_dump..].iter().any(|o| o.1 == "sst.set_cell") {
                out.probe("registration_after_another_savers_dump");
            }
        }
        out.nontrivial = threads_appending.len() >= 2 && alternations > 0;
        out.step("table_ops", r.table_ops.len() as u64);
        let sig: Vec<String> = r.table_ops.iter().map(|(t, k)| format!("{}{}", t, if *k == "sst.set_cell" { "r" } else { "d" })).collect();
        out.signature = format!("{:x}|{}", crate::rng::fnv(&format!("{}{}{}{}", case["base_ops"], case["clone_ops"], case["savers"], case["reload"])), sig.join(""));
        out.record = json!({"schedule": l.decisions, "context_switches": l.switches, "table_ops": sig.join(" "), "diverged": l.diverged});
    } else {
        out.record = json!({"schedule": l.decisions, "context_switches": l.switches, "diverged": l.diverged});
        out.signature = "aborted".into();
    }
    if l.diverged && mode == "replay" {
        out.probe("replay_schedule_diverged");
    }
    out.step("sched_points", l.decisions.len() as u64);
    out.step("context_switches", l.switches);
    out.probe(&format!("mode_{}", facet_mode));
    out
}

fn first_cell_diff(a: &decode::Decoded, b: &decode::Decoded) -> Option<String> {
    for (i, (sa, sb)) in a.sheets.iter().zip(b.sheets.iter()).enumerate() {
        for (k, ca) in &sa.cells {
            match sb.cells.get(k) {
                Some(cb) if cb.v == ca.v && cb.t == ca.t => {}
                Some(cb) => return Some(format!("sheet {} cell {}: solo save has {:?}, concurrent save has {:?}", i, k, ca.v, cb.v)),
                None => return Some(format!("sheet {} cell {} missing in concurrent save", i, k)),
            }
        }
        if sa.cells.len() != sb.cells.len() {
            return Some(format!("sheet {}: {} cells solo, {} concurrent", i, sa.cells.len(), sb.cells.len()));
        }
    }
    if a.sheets.len() != b.sheets.len() {
        return Some("sheet count differs".into());
    }
    None
}

// ------------------------------------------------------------------------------------------------
// generation
// ------------------------------------------------------------------------------------------------

pub fn cases(run_seed: u64, tier: &str, _scratch: &str) -> Vec<Value> {
    let mut sw = Rng::stream(run_seed, "swarm");
    let mut wl = Rng::stream(run_seed, "workload");
    let mut sc = Rng::stream(run_seed, "schedule");
    let nsavers = if sw.chance(1, 3) { 3 } else { 2 };
    let sheets = 1 + sw.usize(3);
    let ncells = 2 + sw.usize(7);
    let alpha = sw.usize(4);
    let overlap = ["equal", "disjoint", "overlapping"][sw.usize(3)];
    let mode = ["shared", "clones", "mix"][sw.usize(3)];
    let mut base_ops = Vec::new();
    let nbase = 1 + wl.usize(8);
    let pool: Vec<String> = (0..4).map(|i| format!("dup{}:{}", i, world::gen_text(&mut wl, alpha, 3))).collect();
    let gen = |wl: &mut Rng, tag: &str, dup_ok: bool| -> Op {
        let sheet = wl.usize(sheets);
        let cell = world::gen_cell(wl, ncells);
        match wl.usize(10) {
            0 => Op::SetNum { sheet, cell, v: wl.below(100) as f64 },
            1 => Op::SetRich { sheet, cell, parts: vec![format!("{}r:", tag), world::gen_text(wl, alpha, 2)] },
            2 | 3 if dup_ok => Op::SetText { sheet, cell, v: pool[wl.usize(pool.len())].clone() },
            _ => Op::SetText { sheet, cell, v: world::tagged(wl, tag, alpha) },
        }
    };
    for i in 0..nbase {
        base_ops.push(gen(&mut wl, &format!("b{}", i), true));
    }
    let mut savers = Vec::new();
    let mut clone_ops: Vec<HOp> = Vec::new();
    for j in 0..nsavers {
        let kind = match mode {
            "shared" => "shared",
            "clones" => "clone",
            _ => {
                if wl.chance(1, 2) {
                    "shared"
                } else {
                    "clone"
                }
            }
        };
        savers.push(Saver { kind: kind.to_string(), light: wl.chance(1, 4) });
        if kind == "clone" {
            let n = match overlap {
                "equal" => 0,
                _ => 1 + wl.usize(8),
            };
            for i in 0..n {
                let tag = if overlap == "overlapping" && wl.chance(1, 2) { format!("shared{}", i) } else { format!("c{}.{}", j, i) };
                clone_ops.push(HOp { h: j, op: gen(&mut wl, &tag, overlap != "disjoint") });
            }
        }
    }
    let mut base = new_case("C16", run_seed);
    base["base_ops"] = serde_json::to_value(&base_ops).unwrap();
    base["clone_ops"] = serde_json::to_value(&clone_ops).unwrap();
    base["savers"] = serde_json::to_value(&savers).unwrap();
    base["sheets"] = json!(sheets);
    base["presave"] = json!(sw.chance(1, 3));
    let reload = ["none", "none", "eager", "lazy"][sw.usize(4)];
    base["reload"] = json!(reload);
    base["mode"] = json!(mode);
    base["overlap"] = json!(overlap);
    // a password save costs three 100000-round key derivations: rare
    // (csv export reads the active sheet through the getters, which a lazily loaded workbook does not allow
    // before read_sheet: an API precondition, not a race)
    base["intruder"] = json!(match sw.usize(16) {
        0 => "pw",
        1 | 2 if reload != "lazy" => "csv",
        1..=4 => "light",
        _ => "none",
    });
    let nsched = if tier == "thorough" { 48 } else { 16 };
    let mut out = Vec::new();
    for k in 0..nsched {
        let mut c = base.clone();
        let m = if k % 3 == 2 { "pct" } else { "random" };
        c["sched"] = json!({"mode": m, "seed": hex64(sc.next_u64()), "depth": 1 + sc.below(3), "steps_hint": 40 + sc.below(200)});
        out.push(c);
    }
    out
}
