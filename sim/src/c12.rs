//! C12 — a saved file contains only content of the workbook being saved; saving has no side effects.
//! Parties: 1..4 workbook handles (the original, clones sharing its string-table handle, reloads of
//! saved files, eager or lazy). Simulated: the order of their actions (S6), hash keys (S5).
//! Oracle: provenance. Every generated string carries a unique tag; at every save the set of tags found
//! anywhere in the package must equal the set of tags the public getters of that handle show.

use crate::decode;
use crate::engine::*;
use crate::rng::Rng;
use crate::world::{self, Op};
use serde::{Deserialize, Serialize};
use serde_json::{json, Value};
use std::collections::{BTreeMap, BTreeSet};
use umya_spreadsheet as umya;

#[derive(Clone, Debug, Serialize, Deserialize)]
#[serde(tag = "kind", rename_all = "snake_case")]
pub enum Step {
    Op { h: usize, op: Op },
    Clone { h: usize },
    Drop { h: usize },
    Save { h: usize, light: bool },
    Reload { h: usize, lazy: bool },
    /// clone worksheet `sheet` of handle `from` and add it to handle `h` under `name`
    CopySheet { h: usize, from: usize, sheet: usize, name: String },
}

fn tags_in(s: &str, out: &mut BTreeSet<String>) {
    // tags look like  ~h<digits>s<digits>~
    let b = s.as_bytes();
    let mut i = 0;
    while i < b.len() {
        if b[i] == b'~' {
            if let Some(j) = s[i + 1..].find('~') {
                let t = &s[i + 1..i + 1 + j];
                if t.starts_with('h') && t.len() <= 12 && t[1..].chars().all(|c| c.is_ascii_digit() || c == 's') && t.contains('s') {
                    out.insert(t.to_string());
                    i += j + 2;
                    continue;
                }
            }
        }
        i += 1;
    }
}

/// what the public getters of `book` show right now: tags of all text reachable from it
/// For a lazily loaded handle: the eager load of the same bytes plus the fingerprint of every sheet's
/// raw part, so that a still-raw sheet can be identified whatever its current name or position.
#[derive(Clone)]
pub struct Twin {
    eager: umya::Spreadsheet,
    prints: Vec<u64>,
}

impl Twin {
    fn new(bytes: &[u8]) -> Option<Twin> {
        let eager = world::load_mem(bytes, true).ok()?;
        let lazy = world::load_mem(bytes, false).ok()?;
        let prints = lazy.get_sheet_collection_no_check().iter().map(|w| umya::verif_hooks::raw_fingerprint(w).unwrap_or(0)).collect();
        Some(Twin { eager, prints })
    }
    /// the eager counterpart of a still-raw sheet
    fn of(&self, raw: &umya::Worksheet) -> Option<(usize, &umya::Worksheet)> {
        let fp = umya::verif_hooks::raw_fingerprint(raw)?;
        let j = self.prints.iter().position(|p| *p == fp)?;
        self.eager.get_sheet_collection_no_check().get(j).map(|w| (j, w))
    }
}

fn sheet_tags(ws: &umya::Worksheet, tags: &mut BTreeSet<String>) {
    for c in ws.get_cell_collection() {
        tags_in(&c.get_value(), tags);
    }
    for c in ws.get_comments() {
        tags_in(&c.get_text().get_text(), tags);
        tags_in(c.get_author(), tags);
    }
}

/// `twin`: for a lazily loaded handle, the eager load of the same bytes. It answers what a still-raw
/// sheet (matched by name) contains — cells, comments — without touching the handle under test.
fn visible_tags(book: &umya::Spreadsheet, twin: Option<&Twin>) -> (BTreeSet<String>, BTreeMap<(usize, String), String>, usize) {
    let mut tags = BTreeSet::new();
    let mut cells = BTreeMap::new();
    let mut raw = 0;
    for (i, ws) in book.get_sheet_collection_no_check().iter().enumerate() {
        if umya::verif_hooks::is_deserialized(ws) {
            for c in ws.get_cell_collection() {
                let v = c.get_value().to_string();
                tags_in(&v, &mut tags);
                if matches!(c.get_data_type(), "s") {
                    cells.insert((i, c.get_coordinate().to_string()), v);
                }
            }
            for c in ws.get_comments() {
                tags_in(&c.get_text().get_text(), &mut tags);
                tags_in(c.get_author(), &mut tags);
            }
        } else {
            raw += 1;
            // a raw sheet's cells, read through the public lazy accessor (does not materialise it)
            if let Ok(cs) = book.get_lazy_read_sheet_cells(&i) {
                for c in cs.get_collection() {
                    let v = c.get_value().to_string();
                    tags_in(&v, &mut tags);
                }
            }
            // and everything else it carries (comments), from the eager twin of the loaded file
            if let Some((j, tw)) = twin.and_then(|t| t.of(ws)) {
                sheet_tags(tw, &mut tags);
                // hyperlinks, validations, header/footer ... of the raw sheet
                let mut sj = crate::annot::annot_dump(&twin.unwrap().eager)["sheets"][j].clone();
                if let Some(o) = sj.as_object_mut() {
                    // the name is the handle's business (a raw sheet can be renamed)
                    o.remove("name");
                    // defined names live in the workbook part and are shown by the handle's own getters
                    o.remove("defined_names");
                }
                tags_in(&sj.to_string(), &mut tags);
            }
        }
        tags_in(ws.get_name(), &mut tags);
    }
    // everything else the getters show (hyperlinks, defined names, validations, header/footer, ...)
    // (a panic in here propagates: the caller treats it as an edit-semantics matter and ends the history)
    tags_in(&crate::annot::annot_dump(book).to_string(), &mut tags);
    (tags, cells, raw)
}

/// Tags of the text an operation is meant to delete, read through the getters before it runs. Only the
/// unambiguous part of the semantics is used: overwriting a cell, removing a cell, a band of rows or
/// columns, or a sheet deletes the text of the cells it targets.
fn doomed_tags(b: &umya::Spreadsheet, twin: Option<&Twin>, op: &Op) -> BTreeSet<String> {
    let mut out = doomed_in_sheet(b, op);
    if out.is_empty() {
        return out;
    }
    // a tag that also lives in another sheet of the workbook (a copied sheet, a raw sheet) is not doomed
    let n = b.get_sheet_count();
    let target = match crate::c12::op_sheet_index(op) {
        Some(s) => s % n.max(1),
        None => usize::MAX,
    };
    let mut elsewhere = BTreeSet::new();
    for (i, ws) in b.get_sheet_collection_no_check().iter().enumerate() {
        if i == target {
            continue;
        }
        if umya::verif_hooks::is_deserialized(ws) {
            sheet_tags(ws, &mut elsewhere);
        } else if let Some((_, tw)) = twin.and_then(|t| t.of(ws)) {
            sheet_tags(tw, &mut elsewhere);
        } else {
            // a raw sheet we cannot look into: be conservative, nothing is doomed
            return BTreeSet::new();
        }
    }
    out.retain(|t| !elsewhere.contains(t));
    out
}

pub fn op_sheet_index(op: &Op) -> Option<usize> {
    match op {
        Op::SetText { sheet, .. } | Op::SetRich { sheet, .. } | Op::SetNum { sheet, .. } | Op::SetBool { sheet, .. } | Op::SetBlank { sheet, .. } | Op::RemoveCell { sheet, .. } | Op::SheetRemoveRow { sheet, .. } | Op::SheetRemoveCol { sheet, .. } | Op::RemoveSheet { sheet, .. } | Op::EditComment { sheet, .. } | Op::Comment { sheet, .. } | Op::CommentRich { sheet, .. } => Some(*sheet),
        _ => None,
    }
}

fn doomed_in_sheet(b: &umya::Spreadsheet, op: &Op) -> BTreeSet<String> {
    let mut out = BTreeSet::new();
    let n = b.get_sheet_count();
    if n == 0 {
        return out;
    }
    let cell_tags = |ws: &umya::Worksheet, pred: &dyn Fn(u32, u32) -> bool, out: &mut BTreeSet<String>| {
        if !umya::verif_hooks::is_deserialized(ws) {
            return;
        }
        // a tag that also lives outside the targeted cells is not doomed
        let mut inside = BTreeSet::new();
        let mut outside = BTreeSet::new();
        for c in ws.get_cell_collection() {
            let (col, row) = (*c.get_coordinate().get_col_num(), *c.get_coordinate().get_row_num());
            if pred(col, row) {
                tags_in(&c.get_value(), &mut inside);
            } else {
                tags_in(&c.get_value(), &mut outside);
            }
        }
        out.extend(inside.difference(&outside).cloned());
    };
    let sheets = b.get_sheet_collection_no_check();
    match op {
        Op::SetText { sheet, cell, .. } | Op::SetRich { sheet, cell, .. } | Op::SetNum { sheet, cell, .. } | Op::SetBool { sheet, cell, .. } | Op::SetBlank { sheet, cell } | Op::RemoveCell { sheet, cell } => {
            if let Some((c, r)) = crate::decode::col_row(cell) {
                cell_tags(&sheets[*sheet % n], &|col, row| col == c && row == r, &mut out);
            }
        }
        Op::Comment { sheet, cell, .. } | Op::CommentRich { sheet, cell, .. } => {
            // the comment that sat on this cell is replaced
            let ws = &sheets[*sheet % n];
            if umya::verif_hooks::is_deserialized(ws) {
                let mut inside = BTreeSet::new();
                let mut outside = BTreeSet::new();
                for c in ws.get_comments() {
                    if c.get_coordinate().to_string() == *cell {
                        tags_in(&c.get_text().get_text(), &mut inside);
                    } else {
                        tags_in(&c.get_text().get_text(), &mut outside);
                    }
                }
                for c in ws.get_cell_collection() {
                    tags_in(&c.get_value(), &mut outside);
                }
                out.extend(inside.difference(&outside).cloned());
            }
        }
        Op::EditComment { sheet, nth, .. } => {
            let ws = &sheets[*sheet % n];
            if umya::verif_hooks::is_deserialized(ws) {
                let cs = ws.get_comments();
                if !cs.is_empty() {
                    let mut inside = BTreeSet::new();
                    tags_in(&cs[*nth % cs.len()].get_text().get_text(), &mut inside);
                    let mut outside = BTreeSet::new();
                    for (i, c) in cs.iter().enumerate() {
                        if i != *nth % cs.len() {
                            tags_in(&c.get_text().get_text(), &mut outside);
                        }
                    }
                    for c in ws.get_cell_collection() {
                        tags_in(&c.get_value(), &mut outside);
                    }
                    out.extend(inside.difference(&outside).cloned());
                }
            }
        }
        Op::SheetRemoveRow { sheet, row, n: cnt } => cell_tags(&sheets[*sheet % n], &|_, r| r >= *row && r < *row + *cnt, &mut out),
        Op::SheetRemoveCol { sheet, col, n: cnt } => cell_tags(&sheets[*sheet % n], &|c, _| c >= *col && c < *col + *cnt, &mut out),
        Op::RemoveSheet { sheet, .. } => {
            if n > 1 {
                let ws = &sheets[*sheet % n];
                if umya::verif_hooks::is_deserialized(ws) {
                    let mut inside = BTreeSet::new();
                    sheet_tags(ws, &mut inside);
                    let mut outside = BTreeSet::new();
                    for (i, o) in sheets.iter().enumerate() {
                        if i != *sheet % n && umya::verif_hooks::is_deserialized(o) {
                            sheet_tags(o, &mut outside);
                        }
                    }
                    // other raw sheets cannot share a tag (tags are unique per step and cell)
                    out.extend(inside.difference(&outside).cloned());
                }
            }
        }
        _ => {}
    }
    out
}

/// A file of the corpus opened lazily, some sheets materialised, every text cell of one of them overwritten,
/// saved: the texts that only that sheet showed are gone from the package (no non-empty shared string is left
/// without a cell that refers to it), and the new texts are there.
fn execute_corpus(case: &Value) -> Outcome {
    let mut out = Outcome::default();
    let bytes = match crate::c11::source_bytes(case) {
        Ok(b) => b,
        Err(e) => {
            out.harness_error = Some(e);
            return out;
        }
    };
    let lazy = case["lazy"].as_bool().unwrap_or(true);
    let light = case["light"].as_bool().unwrap_or(false);
    let mut book = match guarded(|| world::load_mem(&bytes, !lazy)) {
        Ok(Ok(b)) => b,
        _ => {
            out.probe("corpus_file_unreadable");
            return out;
        }
    };
    let n = book.get_sheet_count();
    if n == 0 {
        return out;
    }
    let r = guarded(|| {
        for i in case["materialise"].as_array().cloned().unwrap_or_default() {
            let _ = book.get_sheet_mut(&((i.as_u64().unwrap_or(0) as usize) % n));
        }
        let w = (case["wipe"].as_u64().unwrap_or(0) as usize) % n;
        let mut wiped = 0u64;
        if let Some(ws) = book.get_sheet_mut(&w) {
            let coords: Vec<(u32, u32)> = ws.get_cell_collection().iter().filter(|c| c.get_data_type() == "s" && c.get_formula().is_empty()).map(|c| (*c.get_coordinate().get_col_num(), *c.get_coordinate().get_row_num())).collect();
            for (k, (c, r)) in coords.iter().enumerate() {
                ws.get_cell_mut((*c, *r)).set_value_string(format!("~h0s{}~w", k));
                wiped += 1;
            }
        }
        wiped
    });
    let wiped = match r {
        Ok(w) => w,
        Err(_) => {
            out.probe("edit_panics");
            return out;
        }
    };
    out.step("cells_wiped", wiped);
    for round in 0..2 {
        let saved = match guarded(|| world::save_mem(&book, light)) {
            Ok(Ok(b)) => b,
            Ok(Err(e)) => {
                out.violate(Verdict::new("C12", "C12:save-failed", &[("origin", "corpus")], e));
                return out;
            }
            Err(p) => {
                out.violate(Verdict::new("C12", "C12:save-panics", &[("origin", "corpus")], p.chars().take(200).collect::<String>()));
                return out;
            }
        };
        out.step("corpus_saves", 1);
        match decode::decode(&saved) {
            Err(e) => out.violate(Verdict::new("C12", "C12:corrupt-file", &[("origin", "corpus")], e)),
            Ok(d) => {
                if let Some((idx, text)) = d.unreferenced_strings().first() {
                    out.violate(Verdict::new(
                        "C12",
                        "C12:leak-unreferenced",
                        &[("origin", "corpus")],
                        format!("save {}: shared string #{} {:?} is stored although no cell of any sheet refers to it", round, idx, text.chars().take(60).collect::<String>()),
                    ));
                    break;
                }
            }
        }
    }
    out.nontrivial = wiped > 0;
    out.signature = format!("corpus|{}|{}|{}|{}", case["source"]["file"], case["materialise"], case["wipe"], lazy);
    out
}

pub fn execute(case: &Value, _scratch: &str) -> Outcome {
    if case["source"]["kind"] == "corpus" {
        return execute_corpus(case);
    }
    let mut out = Outcome::default();
    let steps: Vec<Step> = serde_json::from_value(case["steps"].clone()).unwrap_or_default();
    let nsheets = case["sheets"].as_u64().unwrap_or(1).max(1);
    let mut handles: Vec<Option<umya::Spreadsheet>> = Vec::new();
    let mut twins: Vec<Option<Twin>> = Vec::new();
    // tags an operation on that handle deleted (overwrite, remove cell/row/column/sheet): history oracle
    let mut deleted: Vec<BTreeSet<String>> = vec![BTreeSet::new()];
    // tags contained in the file a handle was loaded from (empty for handles not loaded from a file)
    let mut loaded: Vec<BTreeSet<String>> = vec![BTreeSet::new()];
    // lineage: parent handle of each handle (for classification only)
    let mut parent: Vec<Option<usize>> = Vec::new();
    let mut b0 = umya::new_file();
    for i in 1..nsheets {
        let _ = b0.new_sheet(format!("S{}", i + 1));
    }
    handles.push(Some(b0));
    twins.push(None);
    parent.push(None);
    let mut saves = 0u64;
    let mut sig = String::new();
    let mut saved_after_edit_on_shared = false;
    let mut clones_alive = 0;
    let mut samples: Vec<Value> = Vec::new();
    let mut ended_by_foreign_panic = false;

    let r = guarded(|| {
        for (k, st) in steps.iter().enumerate() {
            match st {
                Step::Op { h, op } => {
                    let n = handles.len();
                    let hi = *h % n;
                    if let Some(b) = handles[hi].as_mut() {
                        // what the operation is meant to delete, read from the getters before it runs
                        // (only where the sheet is already materialised: a raw sheet is judged by the
                        // file-vs-getters oracle alone)
                        // panics of getters or of the edit itself are edit-semantics matters (C07-C10),
                        // not C12's: the history ends there
                        let doomed = match guarded(|| doomed_tags(b, twins[hi].as_ref(), op)) {
                            Ok(d) => d,
                            Err(_) => {
                                ended_by_foreign_panic = true;
                                break;
                            }
                        };
                        if guarded(|| world::apply(b, op)).is_err() {
                            ended_by_foreign_panic = true;
                            break;
                        }
                        deleted[hi].extend(doomed);
                        sig.push('o');
                    }
                }
                Step::Clone { h } => {
                    let n = handles.len();
                    if handles.len() < 5 {
                        if let Some(b) = handles[*h % n].as_ref() {
                            let c = b.clone();
                            handles.push(Some(c));
                            let tw = twins[*h % n].clone();
                            twins.push(tw);
                            let d = deleted[*h % n].clone();
                            deleted.push(d);
                            let l = loaded[*h % n].clone();
                            loaded.push(l);
                            parent.push(Some(*h % n));
                            clones_alive += 1;
                            sig.push('c');
                        }
                    }
                }
                Step::CopySheet { h, from, sheet, name } => {
                    let n = handles.len();
                    let (hi, fi) = (*h % n, *from % n);
                    let src_ws = handles[fi].as_ref().and_then(|b| {
                        let cnt = b.get_sheet_count();
                        if cnt == 0 {
                            return None;
                        }
                        let ws = &b.get_sheet_collection_no_check()[*sheet % cnt];
                        if umya::verif_hooks::is_deserialized(ws) {
                            Some(ws.clone())
                        } else {
                            None
                        }
                    });
                    if let (Some(mut ws), Some(b)) = (src_ws, handles[hi].as_mut()) {
                        ws.set_name(name.clone());
                        // text that comes (back) with the copied sheet is legitimately part of this workbook
                        let mut arriving = BTreeSet::new();
                        sheet_tags(&ws, &mut arriving);
                        if b.add_sheet(ws).is_ok() {
                            sig.push('y');
                            for t in &arriving {
                                deleted[hi].remove(t);
                            }
                        }
                    }
                }
                Step::Drop { h } => {
                    let n = handles.len();
                    let i = *h % n;
                    if i != 0 && handles[i].is_some() {
                        handles[i] = None;
                        sig.push('d');
                    }
                }
                Step::Save { h, light } | Step::Reload { h, lazy: light } => {
                    let n = handles.len();
                    let i = *h % n;
                    let is_reload = matches!(st, Step::Reload { .. });
                    let light_flag = if is_reload { false } else { *light };
                    if handles[i].is_none() {
                        continue;
                    }
                    let (expected, cells, raw) = match guarded(|| visible_tags(handles[i].as_ref().unwrap(), twins[i].as_ref())) {
                        Ok(v) => v,
                        Err(_) => {
                            ended_by_foreign_panic = true;
                            break;
                        }
                    };
                    let bytes = match guarded(|| world::save_mem(handles[i].as_ref().unwrap(), light_flag)) {
                        Err(p) => {
                            // a workbook whose own getters work must be saveable
                            out.violate(Verdict::new("C12", "C12:save-panics", &[], format!("step {}: save of handle {} panicked: {}", k, i, p.chars().take(200).collect::<String>())));
                            break;
                        }
                        Ok(Ok(b)) => b,
                        Ok(Err(e)) => {
                            out.violate(Verdict::new("C12", "C12:save-failed", &[], format!("step {}: save of handle {} failed: {}", k, i, e)));
                            continue;
                        }
                    };
                    saves += 1;
                    sig.push(if is_reload { 'r' } else { 's' });
                    // saving is free of side effects: the same workbook saved again at once gives the same parts,
                    // the same content and the same table sizes, and nothing dangles in the second file either
                    if let Ok(Ok(bytes2)) = guarded(|| world::save_mem(handles[i].as_ref().unwrap(), light_flag)) {
                        if let (Ok(d1), Ok(d2)) = (decode::decode(&bytes), decode::decode(&bytes2)) {
                            out.step("double_saves", 1);
                            let t1 = (d1.shared_strings.len(), d1.n_cell_xfs, d1.n_fonts, d1.n_fills, d1.n_borders, d1.n_num_fmts, d1.n_dxfs);
                            let t2 = (d2.shared_strings.len(), d2.n_cell_xfs, d2.n_fonts, d2.n_fills, d2.n_borders, d2.n_num_fmts, d2.n_dxfs);
                            let new_err = d2.errors.iter().find(|e| !d1.errors.contains(e));
                            if d1.parts != d2.parts || d1.content() != d2.content() || d1.shared_strings != d2.shared_strings || t1 != t2 || new_err.is_some() {
                                let what = if d1.parts != d2.parts {
                                    "part list".to_string()
                                } else if d1.content() != d2.content() || d1.shared_strings != d2.shared_strings {
                                    "content".to_string()
                                } else if t1 != t2 {
                                    format!("table sizes {:?} vs {:?}", t1, t2)
                                } else {
                                    format!("second file: {}", new_err.cloned().unwrap_or_default())
                                };
                                out.violate(Verdict::new("C12", "C12:second-save-differs", &[], format!("step {}: handle {} saved twice in a row: {} differs", k, i, what)));
                            }
                        }
                    } else {
                        out.violate(Verdict::new("C12", "C12:second-save-differs", &[], format!("step {}: the second of two saves in a row of handle {} fails", k, i)));
                    }
                    if clones_alive > 0 {
                        saved_after_edit_on_shared = true;
                    }
                    let rawf = if raw > 0 { ">0" } else { "0" };
                    let mut file_tags: BTreeSet<String> = BTreeSet::new();
                    if let Ok(files) = decode::read_zip(&bytes) {
                        for (name, data) in &files {
                            if name.ends_with(".xml") || name.ends_with(".vml") || name.ends_with(".rels") {
                                tags_in(&String::from_utf8_lossy(data), &mut file_tags);
                            }
                        }
                    }
                    match decode::decode(&bytes) {
                        Err(e) => out.violate(Verdict::new("C12", "C12:corrupt-file", &[("raw_sheets_at_save", rawf)], format!("step {}: handle {}: {}", k, i, e))),
                        Ok(d) => {
                            // a saved file has no integrity problem (index outside its table, dangling relationship, ...)
                            if let Some(e) = d.errors.first() {
                                out.violate(Verdict::new("C12", "C12:corrupt-file", &[("raw_sheets_at_save", rawf)], format!("step {}: file saved from handle {}: {} ({} problems)", k, i, e, d.errors.len())));
                            }
                            // nothing is stored that no cell shows: every non-empty shared string is referred to
                            if let Some((idx, text)) = d.unreferenced_strings().first() {
                                out.violate(Verdict::new(
                                    "C12",
                                    "C12:leak-unreferenced",
                                    &[("raw_sheets_at_save", rawf)],
                                    format!("step {}: file saved from handle {} stores shared string #{} {:?} although no cell of any sheet refers to it", k, i, idx, text.chars().take(60).collect::<String>()),
                                ));
                            }
                            // tags found anywhere in the package
                            let found = file_tags.clone();
                            // history oracle: text an operation deleted from this workbook must be gone,
                            // whatever the getters say
                            if let Some(t) = found.intersection(&deleted[i]).next() {
                                out.violate(Verdict::new(
                                    "C12",
                                    "C12:leak-deleted",
                                    &[("raw_sheets_at_save", rawf)],
                                    format!("step {}: file saved from handle {} contains text tagged ~{}~ that an earlier operation on this workbook overwrote or removed (cell/row/column/sheet)", k, i, t),
                                ));
                            }
                            let stray: Vec<&String> = found.difference(&expected).collect();
                            if let Some(t) = stray.first() {
                                // provenance: which handle wrote it
                                let writer: usize = t[1..].split('s').next().and_then(|x| x.parse().ok()).unwrap_or(0);
                                let mut anc = Some(i);
                                let mut lineage = false;
                                while let Some(a) = anc {
                                    if a == writer {
                                        lineage = true;
                                        break;
                                    }
                                    anc = parent.get(a).cloned().flatten();
                                }
                                let class = if lineage { "C12:leak-stale" } else { "C12:leak-foreign" };
                                let where_ = if d.shared_strings.iter().any(|s| s.contains(&format!("~{}~", t))) { "sharedStrings" } else { "other part" };
                                out.violate(Verdict::new(
                                    "C12",
                                    class,
                                    &[("raw_sheets_at_save", rawf), ("where", if where_ == "sharedStrings" { "sharedStrings" } else { "other" }), ("origin", if loaded[i].contains(*t) { "loaded-file" } else { "post-load" })],
                                    format!(
                                        "step {}: file saved from handle {} contains text tagged ~{}~ ({}), which is not reachable from that workbook (written by handle {}{}); {} stray tags",
                                        k,
                                        i,
                                        t,
                                        where_,
                                        writer,
                                        if lineage { ", since overwritten/deleted" } else { ", never part of this workbook" },
                                        stray.len()
                                    ),
                                ));
                            }
                            let lost: Vec<&String> = expected.difference(&found).collect();
                            if let Some(t) = lost.first() {
                                out.violate(Verdict::new("C12", "C12:lost-string", &[("raw_sheets_at_save", rawf)], format!("step {}: handle {}: text tagged ~{}~ is in the workbook but not in the file", k, i, t)));
                            }
                            // every text cell decodes to its own string
                            for ((si, coord), want) in &cells {
                                let got = d.sheets.get(*si).and_then(|s| s.cells.get(coord)).map(|c| c.v.as_str());
                                if got != Some(want.as_str()) {
                                    out.violate(Verdict::new("C12", "C12:wrong-string", &[("raw_sheets_at_save", rawf)], format!("step {}: handle {} sheet {} cell {}: file has {:?}, workbook has {:?}", k, i, si, coord, got, want)));
                                    break;
                                }
                            }
                            // no side effect: an immediate second save has the same content
                            match world::save_mem(handles[i].as_ref().unwrap(), light_flag).and_then(|b2| decode::decode(&b2)) {
                                Ok(d2) => {
                                    if d2.content() != d.content() || d2.shared_strings != d.shared_strings || d2.parts != d.parts {
                                        let what = if d2.shared_strings != d.shared_strings { "string table" } else if d2.parts != d.parts { "part list" } else { "content" };
                                        out.violate(Verdict::new("C12", "C12:save-not-idempotent", &[("raw_sheets_at_save", rawf)], format!("step {}: two consecutive saves of handle {} differ in {}", k, i, what)));
                                    }
                                    if d2.sst_count != d.sst_count {
                                        out.probe("sst_count_differs_between_consecutive_saves");
                                    }
                                }
                                Err(e) => out.violate(Verdict::new("C12", "C12:save-failed", &[], format!("step {}: second save of handle {} failed: {}", k, i, e))),
                            }
                            let (after, _, _) = visible_tags(handles[i].as_ref().unwrap(), twins[i].as_ref());
                            if after != expected {
                                out.violate(Verdict::new("C12", "C12:save-changed-workbook", &[], format!("step {}: saving handle {} changed what its getters show", k, i)));
                            }
                            if samples.len() < 2 {
                                samples.push(json!({"step": k, "handle": i, "expected_tags": expected.len(), "found_tags": found.len(), "raw_sheets": raw, "sst": d.shared_strings.len()}));
                            }
                            if raw > 0 {
                                out.probe("save_with_raw_sheets");
                            }
                        }
                    }
                    if let Step::Reload { lazy, .. } = st {
                        if handles.len() < 5 {
                            match world::load_mem(&bytes, !*lazy) {
                                Ok(nb) => {
                                    handles.push(Some(nb));
                                    twins.push(if *lazy { Twin::new(&bytes) } else { None });
                                    let d = deleted[i].clone();
                                    deleted.push(d);
                                    loaded.push(file_tags.clone());
                                    parent.push(Some(i));
                                }
                                Err(e) => out.violate(Verdict::new("C12", "C12:corrupt-file", &[], format!("step {}: reload failed: {}", k, e))),
                            }
                        }
                    }
                }
            }
        }
    });
    if let Err(p) = r {
        out.violate(Verdict::new("C12", "C12:panic", &[], format!("history panicked: {}", p.chars().take(200).collect::<String>())));
    }
    if ended_by_foreign_panic {
        out.probe("history_ended_by_panic_in_edit_or_getter");
    }
    out.step("ops", steps.len() as u64);
    out.step("saves", saves);
    out.nontrivial = saves >= 1 && sig.contains('o');
    if saved_after_edit_on_shared {
        out.probe("save_while_clone_alive");
    }
    out.signature = format!("{:x}", crate::rng::fnv(&case["steps"].to_string()));
    out.record = json!({"history": sig, "saves": samples});
    out
}

pub fn cases(run_seed: u64, tier: &str, _scratch: &str) -> Vec<Value> {
    let mut sw = Rng::stream(run_seed, "swarm");
    let mut wl = Rng::stream(run_seed, "workload");
    let n_hist = if tier == "thorough" { 24 } else { 12 };
    let mut out = Vec::new();
    // one case per run on a file of the corpus (foreign producers: duplicate and unreferenced table entries,
    // phonetic runs, ...)
    let picked = if sw.chance(1, 2) { crate::c11::pick_corpus_file(&mut sw, "quick") } else { None };
    if let Some(f) = picked {
        let mut c = new_case("C12", crate::rng::mix(run_seed, 0xc0));
        c["source"] = json!({"kind": "corpus", "file": f});
        c["lazy"] = json!(sw.chance(3, 4));
        c["light"] = json!(sw.chance(1, 4));
        c["materialise"] = json!((0..sw.usize(4)).map(|_| sw.below(8)).collect::<Vec<_>>());
        c["wipe"] = json!(sw.below(8));
        out.push(c);
    }
    for _ in 0..n_hist {
        let sheets = 1 + sw.usize(3);
        let ncells = 2 + sw.usize(8);
        let alpha = sw.usize(4);
        let len = 3 + wl.usize(if sw.chance(1, 4) { 38 } else { 12 });
        // weights: edit, remove, clone, drop, save, reload
        let w = [10 + sw.below(10) as u32, 2 + sw.below(6) as u32, sw.below(4) as u32, sw.below(3) as u32, 3 + sw.below(5) as u32, sw.below(3) as u32];
        let mut nh = 1usize;
        let mut steps = Vec::new();
        if sw.chance(1, 5) {
            // directed prefix: content, lazy reload into handle 1, clone of it into handle 2
            for k in 0..(2 + wl.usize(4)) {
                steps.push(Step::Op { h: 0, op: Op::SetText { sheet: wl.usize(sheets), cell: world::gen_cell(&mut wl, ncells), v: format!("~h0s{}~p", 900 + k) } });
            }
            steps.push(Step::Reload { h: 0, lazy: true });
            steps.push(Step::Clone { h: 1 });
            nh = 3;
            if wl.chance(1, 2) {
                // one of the two lazy copies is materialised completely at once; the other one still has raw sheets
                steps.push(Step::Op { h: 1 + wl.usize(2), op: Op::ReadAllSheets });
            }
        }
        for k in 0..len {
            let h = wl.usize(nh);
            let tag = format!("~h{}s{}~", h, k);
            let st = match wl.weighted(&w) {
                0 => {
                    let sheet = wl.usize(sheets);
                    let cell = world::gen_cell(&mut wl, ncells);
                    let op = match wl.usize(14) {
                        10 if wl.chance(1, 2) => {
                            // conditional formats (with rule styles: differential formats), validations, ...
                            let aw: [u32; 11] = [2, 5, 1, 1, 0, 0, 1, 1, 0, 0, 0];
                            Op::Annot { a: crate::annot::gen_aop(&mut wl, sheets, 0, &tag, &aw) }
                        }
                        10 => Op::Hyperlink { sheet, cell, url: format!("https://example.com/{}", tag), location: false, tooltip: String::new() },
                        11 => Op::DefinedName { sheet, name: format!("n_{}", k), address: format!("$A${}", 1 + wl.below(9)) },
                        12 if wl.chance(1, 3) => Op::ReadAllSheets,
                        12 => Op::NewSheet { name: format!("{}N", tag) },
                        13 => Op::RenameSheet { sheet, name: format!("{}R", tag) },
                        0 => Op::SetRich { sheet, cell, parts: vec![tag.clone(), world::gen_text(&mut wl, alpha, 2)] },
                        1 => Op::Comment { sheet, cell, author: "au".into(), text: format!("{}{}", tag, world::gen_text(&mut wl, alpha, 2)) },
                        8 => Op::CommentRich { sheet, cell, author: "au".into(), parts: vec!["au:".into(), format!("{}{}", tag, world::gen_text(&mut wl, alpha, 2)), format!(" ~h{}s{}~x", h, 5000 + k)] },
                        9 => Op::EditComment { sheet, nth: wl.usize(8), text: format!("{}{}", tag, world::gen_text(&mut wl, alpha, 2)) },
                        2 => Op::SetNum { sheet, cell, v: wl.below(50) as f64 },
                        _ => Op::SetText { sheet, cell, v: format!("{}{}", tag, world::gen_text(&mut wl, alpha, 3)) },
                    };
                    Step::Op { h, op }
                }
                1 => {
                    let sheet = wl.usize(sheets);
                    let cell = world::gen_cell(&mut wl, ncells);
                    let op = match wl.usize(6) {
                        0 => Op::SetBlank { sheet, cell },
                        1 => Op::SheetRemoveRow { sheet, row: 1 + wl.below(8) as u32, n: 1 + wl.below(3) as u32 },
                        2 => Op::SheetRemoveCol { sheet, col: 1 + wl.below(5) as u32, n: 1 + wl.below(3) as u32 },
                        3 => Op::RemoveSheet { sheet, by_name: wl.chance(1, 2) },
                        _ => Op::RemoveCell { sheet, cell },
                    };
                    Step::Op { h, op }
                }
                2 => {
                    if nh < 4 {
                        nh += 1;
                    }
                    Step::Clone { h }
                }
                3 if wl.chance(1, 2) => Step::CopySheet { h, from: wl.usize(nh), sheet: wl.usize(sheets), name: format!("Copy{}", k) },
                3 => Step::Drop { h },
                4 => Step::Save { h, light: wl.chance(1, 4) },
                _ => {
                    if nh < 4 {
                        nh += 1;
                    }
                    Step::Reload { h, lazy: wl.chance(1, 2) }
                }
            };
            steps.push(st);
        }
        steps.push(Step::Save { h: wl.usize(nh), light: false });
        let mut c = new_case("C12", crate::rng::mix(run_seed, out.len() as u64));
        c["sheets"] = json!(sheets);
        c["steps"] = serde_json::to_value(&steps).unwrap();
        out.push(c);
    }
    out
}
