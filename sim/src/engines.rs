//! Engine registry.
use crate::engine::Outcome;
use serde_json::Value;

pub const ENGINES: &[&str] = &["C13"];

pub fn cases(engine: &str, run_seed: u64, tier: &str, scratch: &str) -> Vec<Value> {
    match engine {
        "C13" => crate::c13::cases(run_seed, tier, scratch),
        _ => Vec::new(),
    }
}

pub fn execute(case: &Value, scratch: &str) -> Outcome {
    match case["engine"].as_str().unwrap_or("") {
        "C13" => crate::c13::execute(case, scratch),
        e => Outcome { harness_error: Some(format!("unknown engine {:?}", e)), ..Default::default() },
    }
}

/// arrays of a case that the generic minimiser may shrink, in order
pub fn shrink_keys(engine: &str) -> &'static [&'static str] {
    match engine {
        "C13" => &["faults", "ops"],
        _ => &["ops"],
    }
}
