//! Engine registry.
use crate::engine::Outcome;
use serde_json::Value;

pub const ENGINES: &[&str] = &["C13", "C16", "C12", "C11", "C06", "C02", "C04", "C14", "C15"];

pub fn cases(engine: &str, run_seed: u64, tier: &str, scratch: &str) -> Vec<Value> {
    match engine {
        "C13" => crate::c13::cases(run_seed, tier, scratch),
        "C12" => crate::c12::cases(run_seed, tier, scratch),
        "C11" => crate::c11::cases(run_seed, tier, scratch),
        "C06" => crate::c06::cases(run_seed, tier, scratch),
        "C02" => crate::c02::cases(run_seed, tier, scratch),
        "C04" => crate::c04::cases(run_seed, tier, scratch),
        "C14" => crate::c14::cases_c14(run_seed, tier, scratch),
        "C15" => crate::c14::cases_c15(run_seed, tier, scratch),
        #[cfg(umya_verif_sched)]
        "C16" => crate::c16::cases(run_seed, tier, scratch),
        _ => Vec::new(),
    }
}

pub fn execute(case: &Value, scratch: &str) -> Outcome {
    match case["engine"].as_str().unwrap_or("") {
        "C13" => crate::c13::execute(case, scratch),
        "C12" => crate::c12::execute(case, scratch),
        "C11" => crate::c11::execute(case, scratch),
        "C06" => crate::c06::execute(case, scratch),
        "C02" => crate::c02::execute(case, scratch),
        "C04" => crate::c04::execute(case, scratch),
        "C14" | "C15" => crate::c14::execute(case, scratch),
        #[cfg(umya_verif_sched)]
        "C16" => crate::c16::execute(case, scratch),
        e => Outcome { harness_error: Some(format!("unknown engine {:?}", e)), ..Default::default() },
    }
}

/// arrays of a case that the generic minimiser may shrink, in order
pub fn shrink_keys(engine: &str) -> &'static [&'static str] {
    match engine {
        "C13" => &["faults", "ops"],
        "C12" => &["steps"],
        "C11" => &["events"],
        "C06" => &["steps"],
        "C02" => &["steps", "materialise"],
        "C04" => &["steps"],
        "C14" => &["ops"],
        "C16" => &["clone_ops", "base_ops", "savers"],
        _ => &["ops"],
    }
}

/// Candidate preparation for the minimiser: engines whose failure depends on a searched schedule
/// re-search it for every shrunk workload.
pub fn prepare_candidate(case: &Value) -> Value {
    let mut c = case.clone();
    if case["engine"] == "C16" {
        c["sched"]["mode"] = serde_json::json!("search");
        c["sched"]["tries"] = serde_json::json!(40);
        c["schedule"] = Value::Null;
    }
    c
}

/// After minimisation: pin the schedule that failed so that replay is exact.
pub fn finalise(case: &Value, o: &Outcome) -> Value {
    let mut c = case.clone();
    if case["engine"] == "C16" {
        c["sched"]["mode"] = serde_json::json!("replay");
        c["schedule"] = o.record["schedule"].clone();
    }
    c
}
