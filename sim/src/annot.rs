//! Annotation vocabulary for C06/C02/C04: operations that attach sheet-level and workbook-level
//! annotations through the public API, and the projection of those annotations through public getters.

use crate::rng::Rng;
use crate::world::{self};
use serde::{Deserialize, Serialize};
use serde_json::{json, Value};
use umya_spreadsheet as umya;
use umya_spreadsheet::Spreadsheet;

#[derive(Clone, Debug, Serialize, Deserialize, PartialEq)]
#[serde(tag = "a", rename_all = "snake_case")]
pub enum AOp {
    Validation { sheet: usize, sqref: String, kind: u8, op: u8, f1: String, f2: String, prompt_title: String, prompt: String, error_title: String, error: String, allow_blank: bool },
    CondFmt { sheet: usize, sqref: String, kind: u8, op: u8, priority: i32, formula: String, text: String, bold: bool },
    AutoFilter { sheet: usize, range: String },
    TabColor { sheet: usize, argb: String },
    Freeze { sheet: usize, cols: u32, rows: u32 },
    Selection { sheet: usize, cell: String },
    PageSetup { sheet: usize, landscape: bool, paper: u32, scale: u32, fit_w: u32, fit_h: u32 },
    HeaderFooter { sheet: usize, header: String, footer: String },
    SheetProtection { sheet: usize, flags: u32, hash: String, salt: String },
    BookProtection { lock_structure: bool, lock_windows: bool, lock_revision: bool, hash: String, salt: String },
    BookDefinedName { name: String, address: String },
    BookProps { title: String, creator: String, company: String, custom_name: String, custom_value: String },
}

fn sheet_mut(book: &mut Spreadsheet, sheet: usize) -> Option<&mut umya::Worksheet> {
    let n = book.get_sheet_count();
    if n == 0 {
        return None;
    }
    book.get_sheet_mut(&(sheet % n))
}

pub fn apply(book: &mut Spreadsheet, op: &AOp) -> bool {
    use umya::structs::*;
    match op {
        AOp::Validation { sheet, sqref, kind, op, f1, f2, prompt_title, prompt, error_title, error, allow_blank } => sheet_mut(book, *sheet).map(|s| {
            let mut dv = DataValidation::default();
            dv.set_type(match kind % 6 {
                0 => DataValidationValues::Whole,
                1 => DataValidationValues::Decimal,
                2 => DataValidationValues::List,
                3 => DataValidationValues::TextLength,
                4 => DataValidationValues::Date,
                _ => DataValidationValues::Custom,
            });
            dv.set_operator(match op % 8 {
                0 => DataValidationOperatorValues::Between,
                1 => DataValidationOperatorValues::Equal,
                2 => DataValidationOperatorValues::GreaterThan,
                3 => DataValidationOperatorValues::GreaterThanOrEqual,
                4 => DataValidationOperatorValues::LessThan,
                5 => DataValidationOperatorValues::LessThanOrEqual,
                6 => DataValidationOperatorValues::NotBetween,
                _ => DataValidationOperatorValues::NotEqual,
            });
            dv.set_allow_blank(*allow_blank);
            dv.set_formula1(f1.clone());
            if !f2.is_empty() {
                dv.set_formula2(f2.clone());
            }
            if !prompt_title.is_empty() || !prompt.is_empty() {
                dv.set_show_input_message(true);
                dv.set_prompt_title(prompt_title.clone());
                dv.set_prompt(prompt.clone());
            }
            if !error_title.is_empty() || !error.is_empty() {
                dv.set_show_error_message(true);
                dv.set_error_title(error_title.clone());
                dv.set_error_message(error.clone());
            }
            let mut sq = SequenceOfReferences::default();
            sq.set_sqref(sqref.clone());
            dv.set_sequence_of_references(sq);
            let mut dvs = s.get_data_validations().cloned().unwrap_or_default();
            dvs.add_data_validation_list(dv);
            s.set_data_validations(dvs);
        }),
        AOp::CondFmt { sheet, sqref, kind, op, priority, formula, text, bold } => sheet_mut(book, *sheet).map(|s| {
            let mut rule = ConditionalFormattingRule::default();
            match kind % 4 {
                3 => {
                    // a rule without child elements (written as an empty <cfRule/>)
                    rule.set_type(ConditionalFormatValues::DuplicateValues);
                }
                0 => {
                    rule.set_type(ConditionalFormatValues::CellIs);
                    rule.set_operator(match op % 6 {
                        0 => ConditionalFormattingOperatorValues::Equal,
                        1 => ConditionalFormattingOperatorValues::GreaterThan,
                        2 => ConditionalFormattingOperatorValues::LessThan,
                        3 => ConditionalFormattingOperatorValues::NotEqual,
                        4 => ConditionalFormattingOperatorValues::GreaterThanOrEqual,
                        _ => ConditionalFormattingOperatorValues::LessThanOrEqual,
                    });
                }
                1 => {
                    rule.set_type(ConditionalFormatValues::Expression);
                }
                _ => {
                    rule.set_type(ConditionalFormatValues::ContainsText);
                    rule.set_operator(ConditionalFormattingOperatorValues::ContainsText);
                    rule.set_text(text.clone());
                }
            }
            rule.set_priority(*priority);
            if kind % 4 != 3 {
                let mut f = Formula::default();
                f.set_string_value(formula.clone());
                rule.set_formula(f);
            }
            let mut st = Style::default();
            if *bold {
                st.get_font_mut().set_bold(true);
            }
            // differential formats with and without a fill
            if !*bold || priority % 2 == 0 {
                st.set_background_color(["FFFFC7CE", "FFC6EFCE", "FFFFEB9C"][(*priority as usize) % 3]);
            }
            rule.set_style(st);
            let mut cf = ConditionalFormatting::default();
            let mut sq = SequenceOfReferences::default();
            sq.set_sqref(sqref.clone());
            cf.set_sequence_of_references(sq);
            cf.add_conditional_collection(rule);
            s.add_conditional_formatting_collection(cf);
        }),
        AOp::AutoFilter { sheet, range } => sheet_mut(book, *sheet).map(|s| {
            s.set_auto_filter(range.clone());
        }),
        AOp::TabColor { sheet, argb } => sheet_mut(book, *sheet).map(|s| {
            if let Some(t) = argb.strip_prefix("theme:") {
                s.get_tab_color_mut().set_theme_index(t.parse().unwrap_or(4));
            } else {
                s.get_tab_color_mut().set_argb(argb.clone());
            }
        }),
        AOp::Freeze { sheet, cols, rows } => sheet_mut(book, *sheet).map(|s| {
            let mut pane = Pane::default();
            if *cols > 0 {
                pane.set_horizontal_split(*cols as f64);
            }
            if *rows > 0 {
                pane.set_vertical_split(*rows as f64);
            }
            let mut c = Coordinate::default();
            c.set_col_num(cols + 1).set_row_num(rows + 1);
            pane.set_top_left_cell(c);
            pane.set_active_pane(if *cols > 0 && *rows > 0 {
                PaneValues::BottomRight
            } else if *rows > 0 {
                PaneValues::BottomLeft
            } else {
                PaneValues::TopRight
            });
            pane.set_state(PaneStateValues::Frozen);
            let views = s.get_sheet_views_mut();
            if views.get_sheet_view_list().is_empty() {
                let mut v = SheetView::default();
                v.set_workbook_view_id(0);
                views.add_sheet_view_list_mut(v);
            }
            if let Some(v) = views.get_sheet_view_list_mut().get_mut(0) {
                v.set_pane(pane);
            }
        }),
        AOp::Selection { sheet, cell } => sheet_mut(book, *sheet).map(|s| {
            let views = s.get_sheet_views_mut();
            if views.get_sheet_view_list().is_empty() {
                let mut v = SheetView::default();
                v.set_workbook_view_id(0);
                views.add_sheet_view_list_mut(v);
            }
            if let Some(v) = views.get_sheet_view_list_mut().get_mut(0) {
                let mut sel = Selection::default();
                let mut c = Coordinate::default();
                c.set_coordinate(cell);
                sel.set_active_cell(c);
                let mut sq = SequenceOfReferences::default();
                sq.set_sqref(cell.clone());
                sel.set_sequence_of_references(sq);
                v.set_selection(sel);
            }
        }),
        AOp::PageSetup { sheet, landscape, paper, scale, fit_w, fit_h } => sheet_mut(book, *sheet).map(|s| {
            let p = s.get_page_setup_mut();
            p.set_orientation(if *landscape { OrientationValues::Landscape } else { OrientationValues::Portrait });
            p.set_paper_size(*paper);
            if *scale > 0 {
                p.set_scale(*scale);
            }
            if *fit_w > 0 {
                p.set_fit_to_width(*fit_w);
            }
            if *fit_h > 0 {
                p.set_fit_to_height(*fit_h);
            }
        }),
        AOp::HeaderFooter { sheet, header, footer } => sheet_mut(book, *sheet).map(|s| {
            let hf = s.get_header_footer_mut();
            let mut h = OddHeader::default();
            h.set_value(header.clone());
            hf.set_odd_header(h);
            let mut f = OddFooter::default();
            f.set_value(footer.clone());
            hf.set_odd_footer(f);
        }),
        AOp::SheetProtection { sheet, flags, hash, salt } => sheet_mut(book, *sheet).map(|s| {
            let p = s.get_sheet_protection_mut();
            p.set_sheet(true);
            p.set_objects(flags & 1 != 0);
            p.set_scenarios(flags & 2 != 0);
            p.set_format_cells(flags & 4 != 0);
            p.set_format_columns(flags & 8 != 0);
            p.set_format_rows(flags & 16 != 0);
            p.set_insert_columns(flags & 32 != 0);
            p.set_insert_rows(flags & 64 != 0);
            p.set_insert_hyperlinks(flags & 128 != 0);
            p.set_delete_columns(flags & 256 != 0);
            p.set_delete_rows(flags & 512 != 0);
            p.set_select_locked_cells(flags & 1024 != 0);
            p.set_sort(flags & 2048 != 0);
            p.set_auto_filter(flags & 4096 != 0);
            p.set_pivot_tables(flags & 8192 != 0);
            p.set_select_unlocked_cells(flags & 16384 != 0);
            if !hash.is_empty() {
                p.set_algorithm_name("SHA-512");
                p.set_hash_value(hash.clone());
                p.set_salt_value(salt.clone());
                p.set_spin_count(100000);
            }
        }),
        AOp::BookProtection { lock_structure, lock_windows, lock_revision, hash, salt } => {
            let p = book.get_workbook_protection_mut();
            p.set_lock_structure(*lock_structure);
            p.set_lock_windows(*lock_windows);
            p.set_lock_revision(*lock_revision);
            if !hash.is_empty() {
                p.set_workbook_algorithm_name("SHA-512");
                p.set_workbook_hash_value(hash.clone());
                p.set_workbook_salt_value(salt.clone());
                p.set_workbook_spin_count(100000);
            }
            Some(())
        }
        AOp::BookProps { title, creator, company, custom_name, custom_value } => {
            let p = book.get_properties_mut();
            p.set_title(title.clone()).set_creator(creator.clone()).set_company(company.clone());
            if !custom_name.is_empty() {
                let mut c = umya::structs::custom_properties::CustomDocumentProperty::default();
                c.set_name(custom_name.clone()).set_value_string(custom_value.clone());
                p.get_custom_properties_mut().add_custom_document_property_list(c);
            }
            Some(())
        }
        AOp::BookDefinedName { name, address } => {
            let mut d = DefinedName::default();
            // set_name is crate-private: go through a worksheet-scoped add and move it
            let n = book.get_sheet_count();
            if n == 0 {
                None
            } else {
                let _ = &mut d;
                let ws = book.get_sheet_mut(&0).unwrap();
                let _ = ws.add_defined_name(name.clone(), address.clone());
                let moved = ws.get_defined_names_mut().pop();
                if let Some(m) = moved {
                    book.add_defined_names(m);
                }
                Some(())
            }
        }
    }
    .is_some()
}

fn prot_dump(p: &umya::structs::SheetProtection) -> Value {
    json!({
        "sheet": p.get_sheet(), "objects": p.get_objects(), "scenarios": p.get_scenarios(), "format_cells": p.get_format_cells(),
        "format_columns": p.get_format_columns(), "format_rows": p.get_format_rows(), "insert_columns": p.get_insert_columns(),
        "insert_rows": p.get_insert_rows(), "insert_hyperlinks": p.get_insert_hyperlinks(), "delete_columns": p.get_delete_columns(),
        "delete_rows": p.get_delete_rows(), "select_locked": p.get_select_locked_cells(), "sort": p.get_sort(), "auto_filter": p.get_auto_filter(),
        "pivot": p.get_pivot_tables(), "select_unlocked": p.get_select_unlocked_cells(),
        "alg": p.get_algorithm_name(), "hash": p.get_hash_value(), "salt": p.get_salt_value(), "spin": p.get_spin_count(), "raw": p.get_password_raw(),
    })
}

/// Projection of all annotations of a workbook through public getters. Collections whose order has
/// no meaning are sorted.
pub fn annot_dump(book: &Spreadsheet) -> Value {
    let mut sheets = Vec::new();
    for ws in book.get_sheet_collection_no_check() {
        let mut v = world::dump_sheet(ws, false);
        // cells: keep only what annotations hang on (hyperlinks); cell content is C01's subject but kept as context
        let mut dvs: Vec<Value> = Vec::new();
        if let Some(d) = ws.get_data_validations() {
            for dv in d.get_data_validation_list() {
                dvs.push(json!({
                    "type": format!("{:?}", dv.get_type()), "op": format!("{:?}", dv.get_operator()), "sqref": dv.get_sequence_of_references().get_sqref(),
                    "f1": dv.get_formula1(), "f2": dv.get_formula2(), "allow_blank": dv.get_allow_blank(),
                    "show_input": dv.get_show_input_message(), "show_error": dv.get_show_error_message(),
                    "prompt_title": dv.get_prompt_title(), "prompt": dv.get_prompt(), "error_title": dv.get_error_title(), "error": dv.get_error_message(),
                }));
            }
        }
        dvs.sort_by_key(|x| x.to_string());
        let mut cfs: Vec<Value> = Vec::new();
        for cf in ws.get_conditional_formatting_collection() {
            let rules: Vec<Value> = cf
                .get_conditional_collection()
                .iter()
                .map(|r| {
                    json!({
                        "type": format!("{:?}", r.get_type()), "op": format!("{:?}", r.get_operator()), "priority": r.get_priority(), "text": r.get_text(),
                        "formula": r.get_formula().map(|f| f.get_address_str()), "has_style": r.get_style().is_some(),
                        "style": r.get_style().map(world::style_fp), "stop": r.get_stop_if_true(),
                    })
                })
                .collect();
            cfs.push(json!({"sqref": cf.get_sequence_of_references().get_sqref(), "rules": rules}));
        }
        cfs.sort_by_key(|x| x.to_string());
        let view = ws.get_sheets_views().get_sheet_view_list().first().map(|sv| {
            json!({
                "pane": sv.get_pane().map(|p| json!({"h": p.get_horizontal_split(), "v": p.get_vertical_split(), "tl": p.get_top_left_cell().get_coordinate(), "active": format!("{:?}", p.get_active_pane()), "state": format!("{:?}", p.get_state())})),
                "selection": sv.get_selection().iter().map(|s| json!({"active": s.get_active_cell().map(|c| c.get_coordinate()), "sqref": s.get_sequence_of_references().get_sqref()})).collect::<Vec<_>>(),
            })
        });
        let ps = ws.get_page_setup();
        v["annot"] = json!({
            "validations": dvs,
            "cond_formats": cfs,
            "auto_filter": ws.get_auto_filter().map(|a| a.get_range().get_range()),
            "tab_color": ws.get_tab_color().map(|c| c.get_argb().to_string()),
            "view": view,
            "page_setup": {"orientation": format!("{:?}", ps.get_orientation()), "paper": ps.get_paper_size(), "scale": ps.get_scale(), "fit_w": ps.get_fit_to_width(), "fit_h": ps.get_fit_to_height()},
            "header": ws.get_header_footer().get_odd_header().get_value(),
            "footer": ws.get_header_footer().get_odd_footer().get_value(),
            "protection": ws.get_sheet_protection().map(prot_dump),
        });
        sheets.push(v);
    }
    let wp = book.get_workbook_protection().map(|p| {
        json!({
            "lock_structure": p.get_lock_structure(), "lock_windows": p.get_lock_windows(), "lock_revision": p.get_lock_revision(),
            "alg": p.get_workbook_algorithm_name(), "hash": p.get_workbook_hash_value(), "salt": p.get_workbook_salt_value(), "spin": p.get_workbook_spin_count(),
            "ralg": p.get_revisions_algorithm_name(), "rhash": p.get_revisions_hash_value(), "rsalt": p.get_revisions_salt_value(), "rspin": p.get_revisions_spin_count(),
            "raw": p.get_workbook_password_raw(), "rraw": p.get_revisions_password_raw(),
        })
    });
    let mut dn: Vec<(String, String)> = book.get_defined_names().iter().map(|d| (d.get_name().to_string(), d.get_address())).collect();
    dn.sort();
    json!({"sheets": sheets, "active": book.get_workbook_view().get_active_tab(), "book_defined_names": dn, "book_protection": wp})
}

pub fn special_text(rng: &mut Rng, alpha: usize) -> String {
    world::gen_text(rng, alpha, 3)
}

/// a text of up to `max_chars` characters (Excel's limits count characters: 32 for titles, 255 for
/// messages), sometimes long and multi-byte
fn sized_text(rng: &mut Rng, alpha: usize, max_chars: usize) -> String {
    if !rng.chance(1, 4) {
        return special_text(rng, alpha);
    }
    let pool = ["日", "本", "é", "ß", "a", "Z", "😀", " ", "&"];
    let n = max_chars / 2 + rng.usize(max_chars / 2 + 1);
    let mut s = String::new();
    let mut chars = 0;
    while chars < n {
        s.push_str(pool[rng.usize(pool.len())]);
        chars += 1;
    }
    s.trim().to_string()
}

pub fn gen_aop(rng: &mut Rng, sheets: usize, alpha: usize, tag: &str, w: &[u32; 11]) -> AOp {
    let sheet = rng.usize(sheets.max(1));
    let r = 1 + rng.below(30);
    let sq = match rng.usize(3) {
        0 => format!("A{}", r),
        1 => format!("B{}:C{}", r, r + 1 + rng.below(3)),
        _ => format!("D{} F{}:G{}", r, r, r + 2),
    };
    match rng.weighted(w) {
        0 => AOp::Validation {
            sheet,
            sqref: sq,
            kind: rng.below(6) as u8,
            op: rng.below(8) as u8,
            f1: if rng.chance(1, 4) { "\"a,b & c,<d>\"".to_string() } else { format!("{}", rng.below(100)) },
            f2: if rng.chance(1, 2) { format!("{}", 100 + rng.below(100)) } else { String::new() },
            prompt_title: if rng.chance(1, 2) { format!("{}pt{}", tag, sized_text(rng, alpha, 26)) } else { String::new() },
            prompt: if rng.chance(1, 2) { format!("{}p{}", tag, sized_text(rng, alpha, 248)) } else { String::new() },
            error_title: if rng.chance(1, 3) { format!("{}et{}", tag, sized_text(rng, alpha, 26)) } else { String::new() },
            error: if rng.chance(1, 3) { format!("{}e{}", tag, sized_text(rng, alpha, 248)) } else { String::new() },
            allow_blank: rng.chance(1, 2),
        },
        1 => AOp::CondFmt { sheet, sqref: sq, kind: rng.below(4) as u8, op: rng.below(6) as u8, priority: 1 + rng.below(20) as i32, formula: format!("{}", rng.below(50)), text: format!("{}t", tag.replace(|c: char| !c.is_ascii_alphanumeric(), "")), bold: rng.chance(1, 2) },
        2 => AOp::AutoFilter { sheet, range: format!("A{}:D{}", r, r + 5) },
        3 => AOp::TabColor { sheet, argb: ["FFFF0000", "FF00B050", "FF0070C0", "FF7030A0", "FF123456", "theme:4", "theme:9"][rng.usize(7)].to_string() },
        4 => AOp::Freeze { sheet, cols: rng.below(3) as u32, rows: 1 + rng.below(3) as u32 },
        5 => AOp::Selection { sheet, cell: format!("{}{}", ["A", "B", "C", "AA"][rng.usize(4)], r) },
        6 => AOp::PageSetup { sheet, landscape: rng.chance(1, 2), paper: [1u32, 8, 9, 11][rng.usize(4)], scale: if rng.chance(1, 2) { 50 + rng.below(100) as u32 } else { 0 }, fit_w: rng.below(3) as u32, fit_h: rng.below(3) as u32 },
        7 => AOp::HeaderFooter { sheet, header: format!("&L{}h{}&R&P", tag, special_text(rng, alpha)), footer: format!("&C{}f{}", tag, special_text(rng, alpha)) },
        8 => AOp::SheetProtection { sheet, flags: rng.below(32768) as u32, hash: if rng.chance(1, 2) { "q83KDXn0r3gMRZ3KNYQ8Fy9mJ8gX0mQYQ5o6s0wQmY4=".to_string() } else { String::new() }, salt: "c2FsdHNhbHRzYWx0c2FsdA==".to_string() },
        9 => AOp::BookProtection { lock_structure: rng.chance(1, 2), lock_windows: rng.chance(1, 2), lock_revision: rng.chance(1, 4), hash: if rng.chance(1, 2) { "aGFzaGhhc2hoYXNoaGFzaA==".to_string() } else { String::new() }, salt: "c2FsdHNhbHRzYWx0c2FsdA==".to_string() },
        _ if rng.chance(1, 4) => AOp::BookProps {
            title: format!("{}title{}", tag, special_text(rng, alpha)),
            creator: format!("cr{}", special_text(rng, alpha)),
            company: if rng.chance(1, 2) { format!("R&D <{}>", rng.below(9)) } else { String::new() },
            custom_name: if rng.chance(1, 2) { format!("prop_{}", tag.replace(|c: char| !c.is_ascii_alphanumeric(), "_")) } else { String::new() },
            custom_value: format!("v{}", special_text(rng, alpha)),
        },
        _ => AOp::BookDefinedName { name: format!("bn_{}_{}", tag.replace(|c: char| !c.is_ascii_alphanumeric(), "_"), rng.below(100)), address: format!("Sheet1!$B${}", 1 + rng.below(9)) },
    }
}
