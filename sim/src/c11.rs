//! C11 — lazy loading is equivalent to eager loading for every access pattern. A workbook opened with
//! read_reader(src, false) whose sheets are parties with state raw | materialised; the eager twin
//! read_reader(src, true) of the same bytes receives the same operations. Simulated: the order of
//! materialisations, edits, structural sheet operations and saves (S6), the source reader's chunking
//! (S2), hash keys (S5).

use crate::decode;
use crate::engine::*;
use crate::rng::Rng;
use crate::world::{self, Op};
use serde::{Deserialize, Serialize};
use serde_json::{json, Value};
use std::io::{Read, Seek, SeekFrom};
use umya_spreadsheet as umya;

#[derive(Clone, Debug, Serialize, Deserialize)]
#[serde(tag = "ev", rename_all = "snake_case")]
pub enum Ev {
    LazyCells { i: usize },
    ReadSheet { i: usize },
    ReadSheetByName { i: usize },
    GetSheetMut { i: usize },
    GetSheetByNameMut { i: usize },
    GetActiveSheetMut,
    ReadAll,
    GetCollectionMut,
    /// a clone of the lazily opened workbook is materialised completely and dropped
    CloneReadAll,
    Edit { op: Op },
    NewSheet { name: String },
    RemoveSheet {
        i: usize,
        #[serde(default)]
        by_name: bool,
    },
    Rename { i: usize, name: String },
    BookInsertRow { i: usize, row: u32, n: u32 },
    BookRemoveCol { i: usize, col: u32, n: u32 },
    Save {
        light: bool,
        /// the bytes just written are opened lazily again and the history goes on with that workbook
        #[serde(default)]
        reopen: bool,
    },
}

/// S2 source: Read + Seek over a byte vector with seeded short reads. Never lies about content.
pub struct SimSource {
    data: Vec<u8>,
    pos: u64,
    rng: Rng,
    max_chunk: usize,
    pub reads: u64,
    pub short_reads: u64,
}

impl SimSource {
    pub fn new(data: Vec<u8>, seed: u64, max_chunk: usize) -> SimSource {
        SimSource { data, pos: 0, rng: Rng::new(seed), max_chunk, reads: 0, short_reads: 0 }
    }
}

impl Read for SimSource {
    fn read(&mut self, buf: &mut [u8]) -> std::io::Result<usize> {
        self.reads += 1;
        let left = self.data.len().saturating_sub(self.pos as usize);
        let mut n = buf.len().min(left);
        if self.max_chunk > 0 && n > 1 {
            let cap = 1 + self.rng.usize(self.max_chunk);
            if cap < n {
                n = cap;
                self.short_reads += 1;
            }
        }
        buf[..n].copy_from_slice(&self.data[self.pos as usize..self.pos as usize + n]);
        self.pos += n as u64;
        Ok(n)
    }
}

impl Seek for SimSource {
    fn seek(&mut self, p: SeekFrom) -> std::io::Result<u64> {
        let np: i128 = match p {
            SeekFrom::Start(o) => o as i128,
            SeekFrom::End(o) => self.data.len() as i128 + o as i128,
            SeekFrom::Current(o) => self.pos as i128 + o as i128,
        };
        if np < 0 {
            return Err(std::io::Error::from(std::io::ErrorKind::InvalidInput));
        }
        self.pos = np as u64;
        Ok(self.pos)
    }
}

pub const CORPUS_DIR_DEFAULT: &str = "/repo/tests/test_files";

pub fn corpus_dir() -> String {
    std::env::var("USIM_CORPUS").unwrap_or_else(|_| CORPUS_DIR_DEFAULT.to_string())
}
pub const UNREADABLE: &[&str] = &["aaa_large_string.xlsx", "wps_comment.xlsx"];

/// hand-written workbooks of /verif/fixtures (constructs of other producers; see make_fixtures.py there)
pub fn fixtures_dir() -> String {
    std::env::var("USIM_FIXTURES").unwrap_or_else(|_| "/verif/fixtures".to_string())
}

/// directory a corpus file name lives in (`fx_*` are the fixtures)
pub fn corpus_path(name: &str) -> String {
    if name.starts_with("fx_") {
        format!("{}/{}", fixtures_dir(), name)
    } else {
        format!("{}/{}", corpus_dir(), name)
    }
}

pub fn corpus_files() -> Vec<String> {
    let mut v: Vec<String> = std::fs::read_dir(corpus_dir())
        .map(|d| d.filter_map(|e| e.ok()).map(|e| e.file_name().to_string_lossy().to_string()).collect())
        .unwrap_or_default();
    v.retain(|n| (n.ends_with(".xlsx") || n.ends_with(".xlsm")) && !UNREADABLE.contains(&n.as_str()) && !n.starts_with("fx_"));
    let fx: Vec<String> = std::fs::read_dir(fixtures_dir())
        .map(|d| d.filter_map(|e| e.ok()).map(|e| e.file_name().to_string_lossy().to_string()).filter(|n| n.starts_with("fx_") && n.ends_with(".xlsx")).collect())
        .unwrap_or_default();
    // each fixture counts four times: they are few and dense
    for _ in 0..4 {
        v.extend(fx.iter().cloned());
    }
    v.sort();
    v
}

pub fn source_bytes(case: &Value) -> Result<Vec<u8>, String> {
    match case["source"]["kind"].as_str().unwrap_or("generated") {
        "corpus" => {
            let f = case["source"]["file"].as_str().unwrap_or("");
            std::fs::read(corpus_path(f)).map_err(|e| format!("corpus file {}: {}", f, e))
        }
        _ => {
            let ops: Vec<Op> = serde_json::from_value(case["source"]["ops"].clone()).unwrap_or_default();
            let aops: Vec<crate::annot::AOp> = serde_json::from_value(case["source"]["annotations"].clone()).unwrap_or_default();
            let mut b = umya::new_file();
            for i in 1..case["source"]["sheets"].as_u64().unwrap_or(2) {
                let _ = b.new_sheet(format!("S{}", i + 1));
            }
            world::apply_all(&mut b, &ops);
            for a in &aops {
                crate::annot::apply(&mut b, a);
            }
            world::save_mem(&b, false)
        }
    }
}

struct SheetTrack {
    /// index in the original file, None for sheets added later
    orig: Option<usize>,
    edited: bool,
    materialised: bool,
}

fn sheet_name(b: &umya::Spreadsheet, i: usize) -> Option<String> {
    b.get_sheet_collection_no_check().get(i).map(|s| s.get_name().to_string())
}

fn strip_name(mut v: Value) -> Value {
    if let Some(o) = v.as_object_mut() {
        o.remove("name");
    }
    v
}

pub fn execute(case: &Value, _scratch: &str) -> Outcome {
    let mut out = Outcome::default();
    let bytes = match source_bytes(case) {
        Ok(b) => b,
        Err(e) => {
            out.harness_error = Some(e);
            return out;
        }
    };
    let events: Vec<Ev> = serde_json::from_value(case["events"].clone()).unwrap_or_default();
    let chunk = case["chunk"].as_u64().unwrap_or(0) as usize;
    let chunk_seed = get_u64(case, "chunk_seed");
    let src_kind = case["source"]["kind"].as_str().unwrap_or("generated").to_string();
    let mut generated = src_kind == "generated";
    let mut generations = 0u64;

    // eager twin and the original eager dump
    let twin0 = guarded(|| world::load_mem(&bytes, true));
    let mut twin = match twin0 {
        Ok(Ok(b)) => b,
        Ok(Err(e)) => {
            out.harness_error = Some(format!("eager load of the source failed: {}", e));
            return out;
        }
        Err(p) => {
            out.harness_error = Some(format!("eager load of the source panicked: {}", p));
            return out;
        }
    };
    let mut orig_dump: Vec<Value> = twin.get_sheet_collection_no_check().iter().map(world::dump_sheet_deep).collect();
    let mut src = SimSource::new(bytes.clone(), chunk_seed, chunk);
    let lazy0 = guarded(|| umya::reader::xlsx::read_reader(&mut src, false));
    let mut lazy = match lazy0 {
        Ok(Ok(b)) => b,
        Ok(Err(e)) => {
            out.violate(Verdict::new("C11", "C11:lazy-open-fails", &[("source", &src_kind)], format!("lazy open failed where eager open succeeded: {:?}", e)));
            return out;
        }
        Err(p) => {
            out.violate(Verdict::new("C11", "C11:lazy-open-fails", &[("source", &src_kind)], format!("lazy open panicked where eager open succeeded: {}", p)));
            return out;
        }
    };
    out.step("source_reads", src.reads);
    out.probe_n("short_reads", src.short_reads);
    let n0 = twin.get_sheet_count();
    if lazy.get_sheet_count() != n0 {
        out.violate(Verdict::new("C11", "C11:content-differs", &[("what", "sheet-count")], format!("lazy workbook has {} sheets, eager {}", lazy.get_sheet_count(), n0)));
        return out;
    }
    let mut track: Vec<SheetTrack> = (0..n0).map(|i| SheetTrack { orig: Some(i), edited: false, materialised: false }).collect();
    let mut sig = String::new();
    let mut saves = 0;
    let mut raw_at_save = 0u64;
    let mut structural_while_raw = false;

    // compare a materialised sheet of the lazy workbook with the twin's
    let check_sheet = |lazy: &umya::Spreadsheet, twin: &umya::Spreadsheet, i: usize, out: &mut Outcome, when: &str| {
        let (a, b) = match (lazy.get_sheet_collection_no_check().get(i), twin.get_sheet_collection_no_check().get(i)) {
            (Some(a), Some(b)) => (a, b),
            _ => return,
        };
        if !umya::verif_hooks::is_deserialized(a) {
            return;
        }
        // a getter that panics on the eager twin too is not a laziness matter (e.g. a range pushed to
        // column 0 by an edit: C07's subject)
        let db = match guarded(|| world::dump_sheet_deep(b)) {
            Ok(v) => v,
            Err(_) => {
                out.probe("eager_getters_panic");
                return;
            }
        };
        let da = match guarded(|| world::dump_sheet_deep(a)) {
            Ok(v) => v,
            Err(p) => {
                out.violate(Verdict::new("C11", "C11:materialised-differs", &[("when", when)], format!("getters of sheet {} panic on the lazy workbook only: {}", i, p)));
                return;
            }
        };
        if da != db {
            let mut d = Vec::new();
            world::diff_keys(&da, &db, "", &mut d);
            out.violate(Verdict::new(
                "C11",
                "C11:materialised-differs",
                &[("when", when)],
                format!("sheet {} ({}) materialised lazily differs from eager loading: {}", i, a.get_name(), d.iter().take(3).cloned().collect::<Vec<_>>().join("; ")),
            ));
        }
    };

    for (k, ev) in events.iter().enumerate() {
        let n = lazy.get_sheet_count();
        if n == 0 {
            break;
        }
        let twin_before = twin.clone();
        let r = guarded(|| {
            match ev {
                Ev::LazyCells { i } => {
                    let i = *i % n;
                    // the stream accessor is defined for sheets that are still raw only
                    if !umya::verif_hooks::is_deserialized(&lazy.get_sheet_collection_no_check()[i]) {
                        let cells = lazy.get_lazy_read_sheet_cells(&i);
                        sig.push('l');
                        if let Ok(cs) = cells {
                            let mut a: Vec<(String, String, String)> =
                                cs.get_collection().iter().map(|c| (c.get_coordinate().to_string(), c.get_value().to_string(), c.get_formula().to_string())).collect();
                            a.sort();
                            let mut b: Vec<(String, String, String)> = twin.get_sheet_collection_no_check()[i]
                                .get_cell_collection()
                                .iter()
                                .map(|c| (c.get_coordinate().to_string(), c.get_value().to_string(), c.get_formula().to_string()))
                                .collect();
                            b.sort();
                            // the stream accessor lists cells; visually empty ones are irrelevant
                            a.retain(|x| !x.1.is_empty() || !x.2.is_empty());
                            b.retain(|x| !x.1.is_empty() || !x.2.is_empty());
                            if a != b {
                                let firstdiff = a.iter().zip(b.iter()).find(|(x, y)| x != y).map(|(x, y)| format!("{:?} vs {:?}", x, y)).unwrap_or(format!("{} vs {} cells", a.len(), b.len()));
                                out.violate(Verdict::new("C11", "C11:materialised-differs", &[("when", "lazy-cells")], format!("step {}: get_lazy_read_sheet_cells({}) differs from eager cells: {}", k, i, firstdiff)));
                            }
                        }
                    }
                }
                Ev::ReadSheet { i } => {
                    let i = *i % n;
                    lazy.read_sheet(i);
                    track[i].materialised = true;
                    sig.push('r');
                    check_sheet(&lazy, &twin, i, &mut out, "read_sheet");
                }
                Ev::ReadSheetByName { i } => {
                    let i = *i % n;
                    if let Some(name) = sheet_name(&lazy, i) {
                        lazy.read_sheet_by_name(&name);
                        // the first sheet of that name is the one materialised
                        let j = lazy.get_sheet_collection_no_check().iter().position(|s| s.get_name() == name).unwrap_or(i);
                        track[j].materialised = true;
                        sig.push('n');
                        check_sheet(&lazy, &twin, j, &mut out, "read_sheet_by_name");
                    }
                }
                Ev::GetSheetMut { i } => {
                    let i = *i % n;
                    let _ = lazy.get_sheet_mut(&i);
                    track[i].materialised = true;
                    sig.push('m');
                    check_sheet(&lazy, &twin, i, &mut out, "get_sheet_mut");
                }
                Ev::GetSheetByNameMut { i } => {
                    let i = *i % n;
                    if let Some(name) = sheet_name(&lazy, i) {
                        let _ = lazy.get_sheet_by_name_mut(&name);
                        let j = lazy.get_sheet_collection_no_check().iter().position(|s| s.get_name() == name).unwrap_or(i);
                        track[j].materialised = true;
                        sig.push('b');
                        check_sheet(&lazy, &twin, j, &mut out, "get_sheet_by_name_mut");
                    }
                }
                Ev::GetActiveSheetMut => {
                    let a = *lazy.get_workbook_view().get_active_tab() as usize;
                    if a < n {
                        let _ = lazy.get_active_sheet_mut();
                        track[a].materialised = true;
                        sig.push('a');
                        check_sheet(&lazy, &twin, a, &mut out, "get_active_sheet_mut");
                    }
                }
                Ev::CloneReadAll => {
                    // what happens to a clone is none of the original's business: its raw sheets stay readable
                    let mut c = lazy.clone();
                    c.read_sheet_collection();
                    drop(c);
                    sig.push('C');
                }
                Ev::ReadAll | Ev::GetCollectionMut => {
                    if matches!(ev, Ev::ReadAll) {
                        lazy.read_sheet_collection();
                    } else {
                        let _ = lazy.get_sheet_collection_mut();
                    }
                    sig.push('A');
                    for i in 0..n {
                        track[i].materialised = true;
                        check_sheet(&lazy, &twin, i, &mut out, "read_sheet_collection");
                    }
                }
                Ev::Edit { op } => {
                    let a = world::apply(&mut lazy, op);
                    let b = world::apply(&mut twin, op);
                    if a != b {
                        out.violate(Verdict::new("C11", "C11:materialised-differs", &[("when", "edit")], format!("step {}: edit applied to lazy={} eager={}", k, a, b)));
                    }
                    if let Some(si) = op_sheet(op) {
                        let i = si % n;
                        track[i].materialised = true;
                        track[i].edited = true;
                        check_sheet(&lazy, &twin, i, &mut out, "edit");
                    }
                    sig.push('e');
                }
                Ev::NewSheet { name } => {
                    let a = lazy.new_sheet(name.clone()).is_ok();
                    let b = twin.new_sheet(name.clone()).is_ok();
                    if a && b {
                        track.push(SheetTrack { orig: None, edited: true, materialised: true });
                        if track.iter().any(|t| !t.materialised) {
                            structural_while_raw = true;
                        }
                        sig.push('+');
                    } else if a != b {
                        out.violate(Verdict::new("C11", "C11:materialised-differs", &[("when", "new_sheet")], format!("step {}: new_sheet lazy={} eager={}", k, a, b)));
                    }
                }
                Ev::RemoveSheet { i, by_name } => {
                    if n > 1 {
                        let i = *i % n;
                        let (a, b) = if *by_name {
                            let name = lazy.get_sheet_collection_no_check()[i].get_name().to_string();
                            (lazy.remove_sheet_by_name(&name).is_ok(), twin.remove_sheet_by_name(&name).is_ok())
                        } else {
                            (lazy.remove_sheet(i).is_ok(), twin.remove_sheet(i).is_ok())
                        };
                        if a && b {
                            track.remove(i);
                            if track.iter().any(|t| !t.materialised) {
                                structural_while_raw = true;
                            }
                            // keep the active tab inside the sheet list on both sides (model bookkeeping,
                            // not under test here)
                            let cnt = lazy.get_sheet_count() as u32;
                            if *lazy.get_workbook_view().get_active_tab() >= cnt {
                                lazy.set_active_sheet(0);
                                twin.set_active_sheet(0);
                            }
                            sig.push('-');
                        }
                    }
                }
                Ev::Rename { i, name } => {
                    let i = *i % n;
                    let a = lazy.set_sheet_name(i, name.clone()).is_ok();
                    let b = twin.set_sheet_name(i, name.clone()).is_ok();
                    if a != b {
                        out.violate(Verdict::new("C11", "C11:materialised-differs", &[("when", "rename")], format!("step {}: set_sheet_name lazy={} eager={}", k, a, b)));
                    }
                    if a && track.iter().any(|t| !t.materialised) {
                        structural_while_raw = true;
                    }
                    sig.push('R');
                }
                Ev::BookInsertRow { i, row, n: cnt } => {
                    let op = Op::BookInsertRow { sheet: *i, row: *row, n: *cnt };
                    world::apply(&mut lazy, &op);
                    world::apply(&mut twin, &op);
                    for t in track.iter_mut() {
                        t.materialised = true;
                        t.edited = true;
                    }
                    sig.push('I');
                    for j in 0..n {
                        check_sheet(&lazy, &twin, j, &mut out, "book_insert_row");
                    }
                }
                Ev::BookRemoveCol { i, col, n: cnt } => {
                    let op = Op::BookRemoveCol { sheet: *i, col: *col, n: *cnt };
                    world::apply(&mut lazy, &op);
                    world::apply(&mut twin, &op);
                    for t in track.iter_mut() {
                        t.materialised = true;
                        t.edited = true;
                    }
                    sig.push('C');
                    for j in 0..n {
                        check_sheet(&lazy, &twin, j, &mut out, "book_remove_col");
                    }
                }
                Ev::Save { light, reopen } => {
                    saves += 1;
                    sig.push('S');
                    let nraw = track.iter().filter(|t| !t.materialised).count();
                    raw_at_save += nraw as u64;
                    let rawf = if nraw > 0 { ">0" } else { "0" };
                    let structf = if structural_while_raw { "yes" } else { "no" };
                    // the eager twin goes first: whatever fails there as well is not a laziness matter
                    let tb = match guarded(|| world::save_mem(&twin, *light)) {
                        Ok(Ok(b)) => b,
                        _ => {
                            out.probe("eager_twin_save_fails");
                            return;
                        }
                    };
                    let t2 = match guarded(|| world::load_mem(&tb, true)) {
                        Ok(Ok(b)) => b,
                        _ => {
                            out.probe("eager_twin_file_unreadable");
                            return;
                        }
                    };
                    let lb = match guarded(|| world::save_mem(&lazy, *light)) {
                        Ok(Ok(b)) => b,
                        Ok(Err(e)) => {
                            out.violate(Verdict::new("C11", "C11:save-fails", &[("raw_sheets", rawf)], format!("step {}: saving the lazy workbook failed: {}", k, e)));
                            return;
                        }
                        Err(p) => {
                            out.violate(Verdict::new("C11", "C11:save-fails", &[("raw_sheets", rawf)], format!("step {}: saving the lazy workbook panicked (saving the eager twin succeeds): {}", k, p.chars().take(160).collect::<String>())));
                            return;
                        }
                    };
                    // valid package
                    match decode::decode(&lb) {
                        Err(e) => {
                            out.violate(Verdict::new("C11", "C11:invalid-package", &[("raw_sheets", rawf), ("structural_edit_while_raw", structf)], format!("step {}: file saved from the lazy workbook: {}", k, e)));
                            return;
                        }
                        Ok(d) => {
                            // integrity problems that the eager twin's file does not have
                            let te: Vec<String> = decode::decode(&tb).map(|d| d.errors).unwrap_or_default();
                            if let Some(e) = d.errors.iter().find(|e| !te.contains(e)) {
                                out.violate(Verdict::new("C11", "C11:invalid-package", &[("raw_sheets", rawf), ("structural_edit_while_raw", structf)], format!("step {}: file saved from the lazy workbook: {} ({} problems; the eager twin's file has {})", k, e, d.errors.len(), te.len())));
                            }
                            let names: Vec<String> = d.sheets.iter().map(|s| s.name.clone()).collect();
                            let want: Vec<String> = twin.get_sheet_collection_no_check().iter().map(|s| s.get_name().to_string()).collect();
                            if names != want {
                                out.violate(Verdict::new("C11", "C11:content-differs", &[("what", "sheet-list"), ("raw_sheets", rawf)], format!("step {}: saved sheet list {:?}, expected {:?}", k, names, want)));
                            }
                        }
                    }
                    let l2 = guarded(|| world::load_mem(&lb, true));
                    let l2 = match l2 {
                        Ok(Ok(b)) => b,
                        Ok(Err(e)) => {
                            out.violate(Verdict::new("C11", "C11:reload-fails", &[("raw_sheets", rawf), ("structural_edit_while_raw", structf)], format!("step {}: the file saved from the lazy workbook cannot be loaded: {}", k, e)));
                            return;
                        }
                        Err(p) => {
                            out.violate(Verdict::new("C11", "C11:reload-fails", &[("raw_sheets", rawf), ("structural_edit_while_raw", structf)], format!("step {}: loading the file saved from the lazy workbook panics: {}", k, p)));
                            return;
                        }
                    };
                    if l2.get_sheet_count() != track.len() {
                        out.violate(Verdict::new("C11", "C11:content-differs", &[("what", "sheet-count"), ("raw_sheets", rawf)], format!("step {}: reloaded file has {} sheets, expected {}", k, l2.get_sheet_count(), track.len())));
                        return;
                    }
                    let clash = image_name_clash(&twin);
                    for (i, t) in track.iter().enumerate() {
                        let got = world::dump_sheet_deep(&l2.get_sheet_collection_no_check()[i]);
                        let state = if !t.materialised { "raw" } else if t.edited { "edited" } else { "materialised" };
                        if !t.materialised {
                            // never accessed: the byte copy must reload to what eager loading of the original shows
                            if let Some(o) = t.orig {
                                let mut want = strip_name(orig_dump[o].clone());
                                let mut got2 = strip_name(got.clone());
                                {
                                    // defined names live in the workbook part, not in the raw sheet, and
                                    // legitimately follow renames: they are judged against the eager twin
                                    let tw = world::dump_sheet_deep(&t2.get_sheet_collection_no_check()[i]);
                                    want["defined_names"] = tw["defined_names"].clone();
                                    let _ = &mut got2;
                                }
                                if got2 != want {
                                    let mut d = Vec::new();
                                    world::diff_keys(&got2, &want, "", &mut d);
                                    let cause = if clash && d.iter().all(|k| k.starts_with("/deep/images")) { "image-name-clash" } else { "" };
                                    out.violate(Verdict::new(
                                        "C11",
                                        "C11:content-differs",
                                        &[("what", "sheet"), ("sheet_state", state), ("structural_edit_while_raw", structf), ("cause", cause)],
                                        format!("step {}: unaccessed sheet {} differs from the original after save+reload: {}", k, i, d.iter().take(3).cloned().collect::<Vec<_>>().join("; ")),
                                    ));
                                    if cause.is_empty() {
                                    break;
                                }
                                }
                            }
                        } else {
                            let want = world::dump_sheet_deep(&t2.get_sheet_collection_no_check()[i]);
                            if got != want {
                                let mut d = Vec::new();
                                world::diff_keys(&got, &want, "", &mut d);
                                let cause = if clash && d.iter().all(|k| k.starts_with("/deep/images")) { "image-name-clash" } else { "" };
                                out.violate(Verdict::new(
                                    "C11",
                                    "C11:content-differs",
                                    &[("what", "sheet"), ("sheet_state", state), ("structural_edit_while_raw", structf), ("cause", cause)],
                                    format!("step {}: {} sheet {} differs from the eager twin after save+reload: {}", k, state, i, d.iter().take(3).cloned().collect::<Vec<_>>().join("; ")),
                                ));
                                if cause.is_empty() {
                                    break;
                                }
                            }
                        }
                    }
                    // against the MODEL, not only against the eager twin's file: sheet list, defined names with
                    // their scopes and every sheet annotation of the reloaded file are what the workbook holds
                    // (generated sources, for which this round trip is exact; a mistake the eager path shares
                    // - a stale localSheetId after a sheet was removed by name - is still a broken save)
                    if generated {
                        if let (Ok(pm), Ok(pl)) = (guarded(|| crate::c06::project(&twin)), guarded(|| crate::c06::project(&l2))) {
                            if let Some((kind, detail)) = crate::c06::first_diff(&pm, &pl) {
                                out.violate(Verdict::new("C11", "C11:content-differs", &[("what", "annotations-vs-model"), ("kind", &kind), ("raw_sheets", rawf)], format!("step {}: after save+reload {} differs from the workbook: {}", k, kind, detail.chars().take(300).collect::<String>())));
                            }
                        }
                    }
                    // workbook-level: defined names, active tab
                    let wl = world::dump_book(&l2, false);
                    let wt = world::dump_book(&t2, false);
                    if wl["defined_names"] != wt["defined_names"] || wl["active"] != wt["active"] {
                        out.violate(Verdict::new("C11", "C11:content-differs", &[("what", "workbook"), ("raw_sheets", rawf)], format!("step {}: defined names / active tab differ from the eager twin after save+reload", k)));
                    }
                    // next generation: the file just written is the source now, opened lazily (and eagerly for
                    // the twin); a partial save must be as good a source as the file it was made from
                    if *reopen && out.verdicts.is_empty() {
                        let mut src2 = SimSource::new(lb.clone(), chunk_seed ^ (k as u64 + 1), chunk);
                        match guarded(|| umya::reader::xlsx::read_reader(&mut src2, false)) {
                            Ok(Ok(b)) => {
                                lazy = b;
                                twin = l2;
                                orig_dump = twin.get_sheet_collection_no_check().iter().map(world::dump_sheet_deep).collect();
                                track = (0..twin.get_sheet_count()).map(|i| SheetTrack { orig: Some(i), edited: false, materialised: false }).collect();
                                structural_while_raw = false;
                                // the model comparison is stated for the generated source itself
                                generated = false;
                                generations += 1;
                                sig.push('G');
                            }
                            Ok(Err(e)) => {
                                out.violate(Verdict::new("C11", "C11:lazy-open-fails", &[("source", "own-save"), ("raw_sheets", rawf)], format!("step {}: the file saved from the lazy workbook cannot be opened lazily (eager loading succeeds): {:?}", k, e)));
                            }
                            Err(p) => {
                                out.violate(Verdict::new("C11", "C11:lazy-open-fails", &[("source", "own-save"), ("raw_sheets", rawf)], format!("step {}: opening the file saved from the lazy workbook lazily panics (eager loading succeeds): {}", k, p)));
                            }
                        }
                    }
                }
            }
        });
        if let Err(p) = r {
            // does the same event panic on an eagerly loaded workbook too? then it is not a laziness
            // defect (edit semantics and writer robustness are other properties' subject)
            let mut tb = twin_before.clone();
            let eager_panics = guarded(|| apply_event_eager(&mut tb, ev)).is_err();
            if eager_panics {
                out.probe("event_panics_on_eager_workbook_too");
                break;
            }
            out.violate(Verdict::new("C11", "C11:panic", &[("event", ev_name(ev))], format!("step {}: {:?} panicked on the lazy workbook: {}", k, ev_name(ev), p.chars().take(200).collect::<String>())));
            break;
        }
        if out.harness_error.is_some() {
            break;
        }
    }
    out.step("events", events.len() as u64);
    out.step("saves", saves);
    if generations > 0 {
        out.probe_n("lazy_generations_after_own_save", generations);
    }
    if raw_at_save > 0 {
        out.probe("saved_with_raw_sheets");
    }
    if structural_while_raw && saves > 0 {
        out.probe("sheet_added_removed_renamed_while_others_raw");
    }
    out.nontrivial = saves > 0 || sig.chars().any(|c| "rnmbaA".contains(c));
    out.signature = format!("{}|{}", case["source"], sig);
    out.record = json!({"history": sig, "sheets": n0});
    out
}

/// what an event means for an eagerly loaded workbook (materialisation events are no-ops)
fn apply_event_eager(b: &mut umya::Spreadsheet, ev: &Ev) {
    let n = b.get_sheet_count().max(1);
    match ev {
        Ev::Edit { op } => {
            world::apply(b, op);
        }
        Ev::NewSheet { name } => {
            let _ = b.new_sheet(name.clone());
        }
        Ev::RemoveSheet { i, by_name } => {
            if n > 1 {
                if *by_name {
                    let name = b.get_sheet_collection_no_check()[*i % n].get_name().to_string();
                    let _ = b.remove_sheet_by_name(&name);
                } else {
                    let _ = b.remove_sheet(*i % n);
                }
            }
        }
        Ev::Rename { i, name } => {
            let _ = b.set_sheet_name(*i % n, name.clone());
        }
        Ev::BookInsertRow { i, row, n: c } => {
            world::apply(b, &Op::BookInsertRow { sheet: *i, row: *row, n: *c });
        }
        Ev::BookRemoveCol { i, col, n: c } => {
            world::apply(b, &Op::BookRemoveCol { sheet: *i, col: *col, n: *c });
        }
        Ev::Save { light, .. } => {
            let _ = world::save_mem(b, *light);
        }
        _ => {}
    }
    for s in b.get_sheet_collection_no_check() {
        let _ = world::dump_sheet_deep(s);
    }
}

/// Two pictures of the workbook carry the same media name and different bytes. The library stores media parts
/// under that name and keeps whichever is written first: known finding F1 (see known_findings.json).
fn image_name_clash(book: &umya::Spreadsheet) -> bool {
    let mut seen: std::collections::BTreeMap<String, String> = std::collections::BTreeMap::new();
    for ws in book.get_sheet_collection_no_check() {
        if !umya::verif_hooks::is_deserialized(ws) {
            continue;
        }
        for i in ws.get_image_collection() {
            let h = world::h_bytes(i.get_image_data());
            if let Some(prev) = seen.insert(i.get_image_name().to_string(), h.clone()) {
                if prev != h {
                    return true;
                }
            }
        }
    }
    false
}

fn op_sheet(op: &Op) -> Option<usize> {
    match op {
        Op::SetText { sheet, .. } | Op::SetRich { sheet, .. } | Op::SetNum { sheet, .. } | Op::SetBool { sheet, .. } | Op::SetFormula { sheet, .. } | Op::SetBlank { sheet, .. } | Op::RemoveCell { sheet, .. } | Op::Bold { sheet, .. } | Op::NumFmt { sheet, .. } | Op::FillColor { sheet, .. } | Op::Hyperlink { sheet, .. } | Op::Comment { sheet, .. } | Op::Merge { sheet, .. } | Op::DefinedName { sheet, .. } | Op::LocalName { sheet, .. } | Op::SheetRemoveRow { sheet, .. } | Op::SheetRemoveCol { sheet, .. } | Op::SheetInsertRow { sheet, .. } | Op::SheetInsertCol { sheet, .. } | Op::ColWidth { sheet, .. } | Op::RowHeight { sheet, .. } | Op::SetState { sheet, .. } | Op::Table { sheet, .. } | Op::CommentRich { sheet, .. } | Op::EditComment { sheet, .. } | Op::Format { sheet, .. } | Op::HideRow { sheet, .. } | Op::HideCol { sheet, .. } | Op::ClearComments { sheet } | Op::RowStyle { sheet, .. } | Op::ColStyle { sheet, .. } | Op::Image { sheet, .. } | Op::Twin { sheet, .. } | Op::CopyRange { sheet, .. } => Some(*sheet),
        _ => None,
    }
}

fn ev_name(e: &Ev) -> &'static str {
    match e {
        Ev::LazyCells { .. } => "lazy_cells",
        Ev::ReadSheet { .. } => "read_sheet",
        Ev::ReadSheetByName { .. } => "read_sheet_by_name",
        Ev::GetSheetMut { .. } => "get_sheet_mut",
        Ev::GetSheetByNameMut { .. } => "get_sheet_by_name_mut",
        Ev::GetActiveSheetMut => "get_active_sheet_mut",
        Ev::ReadAll => "read_sheet_collection",
        Ev::GetCollectionMut => "get_sheet_collection_mut",
        Ev::CloneReadAll => "clone_read_all",
        Ev::Edit { .. } => "edit",
        Ev::NewSheet { .. } => "new_sheet",
        Ev::RemoveSheet { .. } => "remove_sheet",
        Ev::Rename { .. } => "rename",
        Ev::BookInsertRow { .. } => "book_insert_row",
        Ev::BookRemoveCol { .. } => "book_remove_col",
        Ev::Save { .. } => "save",
    }
}

/// Cost class of a corpus file: 0 fast, 1 slow (seconds per load/save chain), 2 heavy (tens of seconds and
/// gigabytes). Measured (one load + three saves + reloads, release build): aaa_large 37 s / 6.9 GB, issue_216
/// 29 s / 3.9 GB, issue_188_3 16 s, issue_233 14 s / 1.7 GB; issue_194_2 6 s, issue_188_2 2.7 s, issue_178* 2 s,
/// issue_181* 1-2 s (a <col max="16384"> becomes 16 376 column records), issue_188 1.3 s; everything else
/// below 0.25 s. Size is no proxy (aaa.xlsx: 227 KB, 0.16 s; issue_181_2.xlsx: 10 KB, 1.1 s), hence a table;
/// files the table does not know are classed by size.
pub fn file_cost(name: &str) -> u8 {
    match name {
        "aaa_large.xlsx" | "issue_216.xlsx" | "issue_188_3.xlsx" | "issue_233.xlsx" => 2,
        "issue_194_2.xlsx" | "issue_188_2.xlsx" | "issue_178.xlsx" | "issue_178_2.xlsx" | "issue_181.xlsx" | "issue_181_2.xlsx" | "issue_188.xlsx" => 1,
        _ => {
            let len = std::fs::metadata(corpus_path(name)).map(|m| m.len()).unwrap_or(0);
            if len > 1_000_000 {
                2
            } else if len > 400_000 {
                1
            } else {
                0
            }
        }
    }
}

/// quick tier: fast files always, slow ones one time in four, heavy ones never (thorough tier: all)
pub fn pick_corpus_file(sw: &mut Rng, tier: &str) -> Option<String> {
    let files = corpus_files();
    if files.is_empty() {
        return None;
    }
    for _ in 0..40 {
        let f = &files[sw.usize(files.len())];
        let c = file_cost(f);
        if tier == "thorough" || c == 0 || (c == 1 && sw.chance(1, 4)) {
            return Some(f.clone());
        }
    }
    None
}

pub fn gen_source(sw: &mut Rng, wl: &mut Rng, tier: &str) -> Value {
    if sw.chance(2, 5) {
        if let Some(f) = pick_corpus_file(sw, tier) {
            return json!({"kind": "corpus", "file": f});
        }
    }
    let sheets = 2 + sw.usize(4);
    let cfg = world::GenCfg { sheets, ncells: 4 + sw.usize(8), alpha: sw.usize(4), w: [8, 2, 3, 1, 2, 1, 3, 3, 2, 1, 1, 2, 2] };
    let n = 4 + wl.usize(30);
    let mut ops = Vec::new();
    for i in 0..n {
        ops.push(world::gen_cell_op(wl, &cfg, &format!("g{}", i)));
    }
    // sheet-level annotations (conditional formats with and without child elements, validations, panes, ...)
    let mut aw = [0u32; 11];
    for w in aw.iter_mut().take(9) {
        *w = if sw.chance(1, 2) { 1 + sw.below(2) as u32 } else { 0 };
    }
    aw[1] += 2;
    let na = wl.usize(10);
    let annotations: Vec<crate::annot::AOp> = (0..na).map(|i| crate::annot::gen_aop(wl, sheets, 0, &format!("a{}", i), &aw)).collect();
    json!({"kind": "generated", "sheets": sheets, "ops": ops, "annotations": annotations})
}

pub fn cases(run_seed: u64, tier: &str, _scratch: &str) -> Vec<Value> {
    let mut sw = Rng::stream(run_seed, "swarm");
    let mut wl = Rng::stream(run_seed, "workload");
    let mut sc = Rng::stream(run_seed, "schedule");
    let source = gen_source(&mut sw, &mut wl, tier);
    let nsheets = match source["kind"].as_str() {
        Some("generated") => source["sheets"].as_u64().unwrap_or(2) as usize,
        _ => 4,
    };
    // the large corpus files cost seconds per load or save: fewer and shorter histories on them
    let big = source["kind"] == "corpus" && file_cost(source["file"].as_str().unwrap_or("")) >= 1;
    let n_hist = if big { 3 } else if tier == "thorough" { 16 } else { 8 };
    let mut out = Vec::new();
    // workbook-level insert/remove rewrites every formula of every sheet through the formula
    // tokenizer (C08/C09 territory; it does not terminate on some corpus formulas): those events are
    // generated for generated sources only, whose formulas are simple.
    let generated = source["kind"] == "generated";
    for hno in 0..n_hist {
        // swarm: weights of event kinds for this history
        let w: Vec<u32> = vec![
            sw.below(3) as u32,     // lazy cells
            1 + sw.below(3) as u32, // read_sheet
            sw.below(2) as u32,     // by name
            1 + sw.below(3) as u32, // get_sheet_mut
            sw.below(2) as u32,     // by name mut
            sw.below(2) as u32,     // active
            sw.below(2) as u32 / 1, // read all
            sw.below(2) as u32,     // collection mut
            2 + sw.below(5) as u32, // edit
            sw.below(3) as u32,     // new sheet
            sw.below(3) as u32,     // remove sheet
            sw.below(3) as u32,     // rename
            if generated && sw.chance(1, 4) { 1 } else { 0 }, // book insert row
            if generated && sw.chance(1, 4) { 1 } else { 0 }, // book remove col
            2 + sw.below(3) as u32, // save
            sw.below(2) as u32,     // a clone is loaded completely
        ];
        let len = 1 + sc.usize(if big { 6 } else { 15 });
        let cfg = world::GenCfg { sheets: nsheets, ncells: 6, alpha: sw.usize(4), w: [8, 1, 2, 1, 1, 2, 2, 2, 1, 1, 0, 1, 0] };
        let mut evs = Vec::new();
        for k in 0..len {
            let i = sc.usize(nsheets + 1);
            let e = match sc.weighted(&w) {
                0 => Ev::LazyCells { i },
                1 => Ev::ReadSheet { i },
                2 => Ev::ReadSheetByName { i },
                3 => Ev::GetSheetMut { i },
                4 => Ev::GetSheetByNameMut { i },
                5 => Ev::GetActiveSheetMut,
                6 => Ev::ReadAll,
                7 => Ev::GetCollectionMut,
                8 => Ev::Edit { op: world::gen_cell_op(&mut wl, &cfg, &format!("e{}.{}", hno, k)) },
                9 => Ev::NewSheet { name: format!("New{}_{}", hno, k) },
                10 => Ev::RemoveSheet { i, by_name: sc.chance(1, 2) },
                11 => Ev::Rename { i, name: format!("Ren{}_{}", hno, k) },
                12 => Ev::BookInsertRow { i, row: 1 + sc.below(4) as u32, n: 1 + sc.below(2) as u32 },
                13 => Ev::BookRemoveCol { i, col: 1 + sc.below(4) as u32, n: 1 },
                15 => Ev::CloneReadAll,
                _ => Ev::Save { light: sc.chance(1, 4), reopen: false },
            };
            evs.push(e);
        }
        evs.push(Ev::Save { light: false, reopen: false });
        let mut c = new_case("C11", crate::rng::mix(run_seed, hno as u64));
        c["source"] = source.clone();
        c["events"] = serde_json::to_value(&evs).unwrap();
        c["chunk"] = json!([0u64, 0, 1, 7, 512, 4096][sw.usize(6)]);
        c["chunk_seed"] = hex64(sc.next_u64());
        out.push(c);
    }
    // subset sweeps: some sheets are read (or removed while everything is unloaded), nothing is edited, the
    // workbook is saved - "whatever subset of sheets is accessed" in its plainest form, cheap enough to be
    // sampled often on the files of the corpus (up to nine sheets)
    let n_sweeps = if generated { 1 } else if big { 3 } else if tier == "thorough" { 16 } else { 8 };
    for k in 0..n_sweeps {
        let mut evs = Vec::new();
        let remove = sc.chance(1, 4);
        for i in 0..9usize {
            if sc.chance(1, 2) {
                evs.push(if remove { Ev::RemoveSheet { i, by_name: sc.chance(1, 2) } } else { Ev::ReadSheet { i } });
            }
        }
        if remove {
            // positions shift with every removal: from the back, so that each index still means the same sheet
            evs.reverse();
        }
        evs.push(Ev::Save { light: false, reopen: false });
        let mut c = new_case("C11", crate::rng::mix(run_seed, 1000 + k as u64));
        c["source"] = source.clone();
        c["events"] = serde_json::to_value(&evs).unwrap();
        c["chunk"] = json!(0u64);
        c["chunk_seed"] = hex64(sc.next_u64());
        c["sweep"] = json!(true);
        out.push(c);
    }
    // generations: a partial save (some sheets still raw) is itself opened lazily, touched on another subset of
    // sheets and saved again - ids and part names handed out in one generation meet the ones copied with raw
    // sheets in the next. Drawn from a stream of their own, so that the cases above do not depend on them.
    if !big {
        let mut rg = Rng::stream(run_seed, "generations");
        let n_gen = if tier == "thorough" { 8 } else { 4 };
        let cfg = world::GenCfg { sheets: nsheets, ncells: 6, alpha: rg.usize(4), w: [4, 1, 1, 1, 1, 1, 2, 2, 1, 1, 0, 4, 0] };
        for g in 0..n_gen {
            let mut evs = Vec::new();
            let rounds = 2 + rg.usize(2);
            for r in 0..rounds {
                for k in 0..rg.usize(4) {
                    let i = rg.usize(nsheets + 1);
                    evs.push(match rg.below(6) {
                        0 => Ev::ReadSheet { i },
                        1 => Ev::GetSheetMut { i },
                        2 if generated => Ev::NewSheet { name: format!("Gen{}_{}_{}", g, r, k) },
                        3 if rg.chance(1, 3) => Ev::RemoveSheet { i, by_name: false },
                        _ => Ev::Edit { op: world::gen_cell_op(&mut rg, &cfg, &format!("q{}.{}.{}", g, r, k)) },
                    });
                }
                evs.push(Ev::Save { light: rg.chance(1, 5), reopen: r + 1 < rounds });
            }
            let mut c = new_case("C11", crate::rng::mix(run_seed, 2000 + g as u64));
            c["source"] = source.clone();
            c["events"] = serde_json::to_value(&evs).unwrap();
            c["chunk"] = json!([0u64, 0, 7, 4096][rg.usize(4)]);
            c["chunk_seed"] = hex64(rg.next_u64());
            c["generations"] = json!(true);
            out.push(c);
        }
    }
    out
}
