//! Seeded PRNG streams. One master integer decides everything: every kind of choice has its own
//! xoshiro256** stream derived from (run_seed, stream name), so shrinking a workload does not shift
//! the fault stream and vice versa. Logging never draws.

pub fn splitmix64(x: &mut u64) -> u64 {
    *x = x.wrapping_add(0x9E3779B97F4A7C15);
    let mut z = *x;
    z = (z ^ (z >> 30)).wrapping_mul(0xBF58476D1CE4E5B9);
    z = (z ^ (z >> 27)).wrapping_mul(0x94D049BB133111EB);
    z ^ (z >> 31)
}

pub fn fnv(s: &str) -> u64 {
    let mut h: u64 = 0xcbf29ce484222325;
    for b in s.bytes() {
        h ^= b as u64;
        h = h.wrapping_mul(0x100000001b3);
    }
    h
}

pub fn mix(a: u64, b: u64) -> u64 {
    let mut x = a ^ b.rotate_left(32) ^ 0x5851F42D4C957F2D;
    let r = splitmix64(&mut x);
    r ^ splitmix64(&mut x)
}

/// run seed of run `i` of engine `engine` under master seed `master`.
pub fn run_seed(master: u64, engine: &str, i: u64) -> u64 {
    mix(mix(master, fnv(engine)), i)
}

#[derive(Clone, Debug)]
pub struct Rng {
    s: [u64; 4],
}

impl Rng {
    pub fn new(seed: u64) -> Rng {
        let mut x = seed;
        let s = [
            splitmix64(&mut x),
            splitmix64(&mut x),
            splitmix64(&mut x),
            splitmix64(&mut x),
        ];
        Rng { s }
    }
    pub fn stream(run_seed: u64, name: &str) -> Rng {
        Rng::new(mix(run_seed, fnv(name)))
    }
    pub fn next_u64(&mut self) -> u64 {
        let result = self.s[1].wrapping_mul(5).rotate_left(7).wrapping_mul(9);
        let t = self.s[1] << 17;
        self.s[2] ^= self.s[0];
        self.s[3] ^= self.s[1];
        self.s[1] ^= self.s[2];
        self.s[0] ^= self.s[3];
        self.s[2] ^= t;
        self.s[3] = self.s[3].rotate_left(45);
        result
    }
    /// uniform in 0..n (n>0)
    pub fn below(&mut self, n: u64) -> u64 {
        if n <= 1 {
            return 0;
        }
        // multiply-shift; bias negligible for our n
        ((self.next_u64() as u128 * n as u128) >> 64) as u64
    }
    pub fn range(&mut self, lo: u64, hi_incl: u64) -> u64 {
        lo + self.below(hi_incl - lo + 1)
    }
    pub fn usize(&mut self, n: usize) -> usize {
        self.below(n as u64) as usize
    }
    pub fn chance(&mut self, num: u64, den: u64) -> bool {
        self.below(den) < num
    }
    pub fn pick<'a, T>(&mut self, v: &'a [T]) -> &'a T {
        &v[self.usize(v.len())]
    }
    pub fn fill(&mut self, buf: &mut [u8]) {
        for c in buf.chunks_mut(8) {
            let b = self.next_u64().to_le_bytes();
            c.copy_from_slice(&b[..c.len()]);
        }
    }
    pub fn bytes(&mut self, n: usize) -> Vec<u8> {
        let mut v = vec![0u8; n];
        self.fill(&mut v);
        v
    }
    /// weighted choice: returns index
    pub fn weighted(&mut self, w: &[u32]) -> usize {
        let tot: u64 = w.iter().map(|x| *x as u64).sum();
        if tot == 0 {
            return 0;
        }
        let mut r = self.below(tot);
        for (i, x) in w.iter().enumerate() {
            if r < *x as u64 {
                return i;
            }
            r -= *x as u64;
        }
        w.len() - 1
    }
}

pub fn hex(b: &[u8]) -> String {
    let mut s = String::with_capacity(b.len() * 2);
    for x in b {
        s.push_str(&format!("{:02x}", x));
    }
    s
}

pub fn unhex(s: &str) -> Vec<u8> {
    (0..s.len() / 2)
        .map(|i| u8::from_str_radix(&s[2 * i..2 * i + 2], 16).unwrap_or(0))
        .collect()
}
