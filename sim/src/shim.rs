//! S3: libc-boundary file-system shim, and S5: the `getrandom` symbol that feeds std's per-thread
//! HashMap keys. The simulator binary *defines* these libc symbols; Rust std and the zip/cfb crates
//! (statically linked into this binary) resolve to them at link time. Each forwards to the real libc
//! function (dlsym RTLD_NEXT) unless the calling thread is armed and the call concerns a path/fd under
//! the run's scratch root, in which case the run's fault plan decides the outcome.
//!
//! The shipped library code (File::create, BufWriter, fs::rename, cfb::create ...) runs unmodified.
#![allow(clippy::missing_safety_doc)]

use libc::{c_char, c_int, c_uint, c_void, mode_t, off64_t, size_t, ssize_t};
use serde::{Deserialize, Serialize};
use std::cell::{Cell, RefCell};
use std::collections::BTreeMap;
use std::ffi::CStr;
use std::sync::atomic::{AtomicUsize, Ordering};

// ------------------------------------------------------------------------------------------------
// real functions
// ------------------------------------------------------------------------------------------------

macro_rules! real {
    ($name:ident : fn($($t:ty),*) -> $r:ty) => {{
        static ADDR: AtomicUsize = AtomicUsize::new(0);
        let mut a = ADDR.load(Ordering::Relaxed);
        if a == 0 {
            a = libc::dlsym(libc::RTLD_NEXT, concat!(stringify!($name), "\0").as_ptr() as *const c_char) as usize;
            if a == 0 {
                libc::abort();
            }
            ADDR.store(a, Ordering::Relaxed);
        }
        std::mem::transmute::<usize, unsafe extern "C" fn($($t),*) -> $r>(a)
    }};
}

fn set_errno(e: c_int) {
    unsafe {
        *libc::__errno_location() = e;
    }
}

// ------------------------------------------------------------------------------------------------
// fault plan
// ------------------------------------------------------------------------------------------------

#[derive(Clone, Debug, Serialize, Deserialize, PartialEq)]
#[serde(tag = "kind", rename_all = "snake_case")]
pub enum Fault {
    /// The scratch "disk" can grow by at most `bytes` bytes in total; the write that crosses the limit is
    /// short, later growing writes fail with `errno` (ENOSPC / EDQUOT).
    Capacity { bytes: u64, errno: i32 },
    /// Per-file size limit (what RLIMIT_FSIZE does): a write may not extend a file beyond `bytes`.
    FileLimit { bytes: u64 },
    /// The n-th (0-based) armed call of kind `call` fails with `errno`; with `sticky` every later one too.
    Nth { call: String, n: u64, errno: i32, sticky: bool },
    /// Calls n..n+burst of kind `call` return EINTR (retryable).
    Eintr { call: String, n: u64, burst: u64 },
    /// The n-th write accepts only `keep` bytes (a legal short write).
    Short { n: u64, keep: u64 },
    /// Real process kill (SIGKILL to ourselves) at call boundary `at` (event index; phase 0 = before the
    /// call, 1 = after). Only used by the cross-check tier, in a child process.
    Kill { at: u64, phase: u8 },
}

impl Fault {
    pub fn kind_name(&self) -> String {
        match self {
            Fault::Capacity { errno, .. } => format!("capacity:{}", errno_name(*errno)),
            Fault::FileLimit { .. } => "file_limit:EFBIG".into(),
            Fault::Nth { call, errno, sticky, .. } => {
                format!("nth:{}:{}{}", call, errno_name(*errno), if *sticky { "+" } else { "" })
            }
            Fault::Eintr { call, .. } => format!("eintr:{}", call),
            Fault::Short { .. } => "short_write".into(),
            Fault::Kill { .. } => "kill".into(),
        }
    }
}

pub fn errno_name(e: i32) -> &'static str {
    match e {
        libc::ENOSPC => "ENOSPC",
        libc::EIO => "EIO",
        libc::EDQUOT => "EDQUOT",
        libc::EFBIG => "EFBIG",
        libc::EINTR => "EINTR",
        libc::EACCES => "EACCES",
        libc::EMFILE => "EMFILE",
        libc::EROFS => "EROFS",
        libc::ENOENT => "ENOENT",
        libc::EISDIR => "EISDIR",
        libc::EXDEV => "EXDEV",
        libc::EBUSY => "EBUSY",
        libc::EPERM => "EPERM",
        libc::EPIPE => "EPIPE",
        libc::EAGAIN => "EAGAIN",
        _ => "E?",
    }
}

#[derive(Clone, Debug, Serialize, Deserialize)]
pub struct Event {
    pub call: String,
    pub target: String,
    pub len: u64,
    pub result: String,
}

#[derive(Default)]
struct FdInfo {
    path: String,
    pos: u64,
    size: u64,
    append: bool,
}

/// Content of the destination as seen at one call boundary. `None` = path absent.
pub type Content = Option<Vec<u8>>;

pub struct ShimState {
    pub root: String,
    pub dest: String,
    pub plan: Vec<Fault>,
    pub events: Vec<Event>,
    pub fired: BTreeMap<String, u64>,
    fds: BTreeMap<c_int, FdInfo>,
    counts: BTreeMap<String, u64>,
    grown: u64,
    // crash-point observer
    pub boundaries: u64,
    pub contents: Vec<Content>,
    /// (event index, 0=before/1=after, content id) — recorded whenever the content id changes
    pub timeline: Vec<(usize, u8, usize)>,
    last_stat: Option<(u64, u64, i64, i64)>,
    dirty: bool,
    pub max_events: usize,
    pub overflow: bool,
}

thread_local! {
    static ARMED: Cell<bool> = const { Cell::new(false) };
    static STATE: RefCell<Option<Box<ShimState>>> = const { RefCell::new(None) };
    // S5
    static HASH_STREAM: Cell<(bool, u64)> = const { Cell::new((false, 0)) };
    static HASH_CALLS: Cell<u64> = const { Cell::new(0) };
}

pub static SEEN_ANY: AtomicUsize = AtomicUsize::new(0);

impl ShimState {
    pub fn new(root: &str, dest: &str, plan: Vec<Fault>) -> ShimState {
        ShimState {
            root: root.to_string(),
            dest: dest.to_string(),
            plan,
            events: Vec::new(),
            fired: BTreeMap::new(),
            fds: BTreeMap::new(),
            counts: BTreeMap::new(),
            grown: 0,
            boundaries: 0,
            contents: Vec::new(),
            timeline: Vec::new(),
            last_stat: None,
            dirty: true,
            max_events: 200_000,
            overflow: false,
        }
    }

    fn under_root(&self, p: &str) -> bool {
        p.starts_with(&self.root)
    }

    fn rel(&self, p: &str) -> String {
        p.strip_prefix(&self.root).unwrap_or(p).trim_start_matches('/').to_string()
    }

    fn count(&mut self, call: &str) -> u64 {
        let c = self.counts.entry(call.to_string()).or_insert(0);
        let v = *c;
        *c += 1;
        v
    }

    fn fire(&mut self, f: &Fault) {
        *self.fired.entry(f.kind_name()).or_insert(0) += 1;
    }

    /// Decide an errno for a non-write call of kind `call` with per-kind index `n`.
    fn decide_simple(&mut self, call: &str, n: u64) -> Option<c_int> {
        let plan = self.plan.clone();
        for f in &plan {
            match f {
                Fault::Nth { call: c, n: k, errno, sticky } if c == call => {
                    if n == *k || (*sticky && n > *k) {
                        self.fire(f);
                        return Some(*errno);
                    }
                }
                Fault::Eintr { call: c, n: k, burst } if c == call => {
                    if n >= *k && n < *k + *burst {
                        self.fire(f);
                        return Some(libc::EINTR);
                    }
                }
                _ => {}
            }
        }
        None
    }

    fn log(&mut self, call: &str, target: String, len: u64, result: String) -> usize {
        if self.events.len() >= self.max_events {
            self.overflow = true;
            return self.events.len();
        }
        self.events.push(Event { call: call.to_string(), target, len, result });
        self.events.len() - 1
    }

    /// crash-point observer: what would be left at the destination if the process died right now
    fn observe(&mut self, ev_idx: usize, phase: u8) {
        self.boundaries += 1;
        for f in &self.plan {
            if let Fault::Kill { at, phase: p } = f {
                if *at as usize == ev_idx && *p == phase {
                    unsafe {
                        libc::kill(libc::getpid(), libc::SIGKILL);
                    }
                }
            }
        }
        let st = stat_of(&self.dest);
        if !self.dirty && st == self.last_stat && !self.contents.is_empty() {
            return;
        }
        self.last_stat = st;
        self.dirty = false;
        let content: Content = if st.is_some() { std::fs::read(&self.dest).ok() } else { None };
        let id = match self.contents.iter().position(|c| *c == content) {
            Some(i) => i,
            None => {
                self.contents.push(content);
                self.contents.len() - 1
            }
        };
        if self.timeline.last().map(|t| t.2) != Some(id) {
            self.timeline.push((ev_idx, phase, id));
        }
    }

    fn touch(&mut self, path: &str) {
        if path == self.dest {
            self.dirty = true;
        }
    }
}

fn stat_of(p: &str) -> Option<(u64, u64, i64, i64)> {
    use std::os::unix::fs::MetadataExt;
    match std::fs::symlink_metadata(p) {
        Ok(m) => Some((m.ino(), m.size(), m.mtime(), m.mtime_nsec())),
        Err(_) => None,
    }
}

/// Arm the shim for the current thread. Returns nothing; use `disarm()` to get the state back.
pub fn arm(state: ShimState) {
    STATE.with(|s| *s.borrow_mut() = Some(Box::new(state)));
    // initial observation (before any call)
    with_state(|st| st.observe(0, 0));
    ARMED.with(|a| a.set(true));
}

pub fn disarm() -> Option<Box<ShimState>> {
    ARMED.with(|a| a.set(false));
    let st = STATE.with(|s| s.borrow_mut().take());
    st.map(|mut st| {
        let n = st.events.len();
        st.dirty = true;
        st.observe(n, 1);
        st
    })
}

pub fn is_armed() -> bool {
    ARMED.with(|a| a.get())
}

fn with_state<R>(f: impl FnOnce(&mut ShimState) -> R) -> Option<R> {
    // disarmed while we work: our own file access must not be intercepted
    let was = ARMED.with(|a| a.replace(false));
    let r = STATE.with(|s| match s.try_borrow_mut() {
        Ok(mut g) => g.as_mut().map(|st| f(st)),
        Err(_) => None,
    });
    ARMED.with(|a| a.set(was));
    r
}

unsafe fn cstr(p: *const c_char) -> String {
    if p.is_null() {
        return String::new();
    }
    CStr::from_ptr(p).to_string_lossy().into_owned()
}

fn abs_path(p: &str) -> String {
    if p.starts_with('/') {
        p.to_string()
    } else {
        match std::env::current_dir() {
            Ok(d) => format!("{}/{}", d.display(), p),
            Err(_) => p.to_string(),
        }
    }
}

// ------------------------------------------------------------------------------------------------
// interposed symbols
// ------------------------------------------------------------------------------------------------

enum Pre {
    Pass,
    Fail(c_int),
}

unsafe fn do_open(path: *const c_char, flags: c_int, mode: mode_t, real: impl Fn() -> c_int, name: &str) -> c_int {
    if !is_armed() {
        return real();
    }
    let p = abs_path(&cstr(path));
    let writing = (flags & libc::O_ACCMODE) != libc::O_RDONLY || (flags & (libc::O_CREAT | libc::O_TRUNC)) != 0;
    let pre = with_state(|st| {
        if !st.under_root(&p) || !writing {
            return None;
        }
        SEEN_ANY.fetch_add(1, Ordering::Relaxed);
        let n = st.count("open");
        let idx = st.events.len();
        st.observe(idx, 0);
        Some(match st.decide_simple("open", n) {
            Some(e) => Pre::Fail(e),
            None => Pre::Pass,
        })
    })
    .flatten();
    let _ = mode;
    match pre {
        None => real(),
        Some(Pre::Fail(e)) => {
            with_state(|st| {
                let t = st.rel(&p);
                let i = st.log(name, t, 0, errno_name(e).to_string());
                st.observe(i, 1);
            });
            set_errno(e);
            -1
        }
        Some(Pre::Pass) => {
            let fd = real();
            let err = *libc::__errno_location();
            with_state(|st| {
                let t = st.rel(&p);
                st.touch(&p);
                let res = if fd >= 0 { "ok".to_string() } else { format!("real:{}", errno_name(err)) };
                let i = st.log(name, t, 0, res);
                if fd >= 0 {
                    let size = if flags & libc::O_TRUNC != 0 { 0 } else { std::fs::metadata(&p).map(|m| m.len()).unwrap_or(0) };
                    st.fds.insert(fd, FdInfo { path: p.clone(), pos: 0, size, append: flags & libc::O_APPEND != 0 });
                }
                st.observe(i, 1);
            });
            set_errno(err);
            fd
        }
    }
}

#[no_mangle]
pub unsafe extern "C" fn open64(path: *const c_char, flags: c_int, mode: mode_t) -> c_int {
    let f = real!(open64: fn(*const c_char, c_int, mode_t) -> c_int);
    do_open(path, flags, mode, || f(path, flags, mode), "open")
}

#[no_mangle]
pub unsafe extern "C" fn open(path: *const c_char, flags: c_int, mode: mode_t) -> c_int {
    let f = real!(open: fn(*const c_char, c_int, mode_t) -> c_int);
    do_open(path, flags, mode, || f(path, flags, mode), "open")
}

#[no_mangle]
pub unsafe extern "C" fn openat(dirfd: c_int, path: *const c_char, flags: c_int, mode: mode_t) -> c_int {
    let f = real!(openat: fn(c_int, *const c_char, c_int, mode_t) -> c_int);
    if dirfd != libc::AT_FDCWD {
        return f(dirfd, path, flags, mode);
    }
    do_open(path, flags, mode, || f(dirfd, path, flags, mode), "open")
}

#[no_mangle]
pub unsafe extern "C" fn openat64(dirfd: c_int, path: *const c_char, flags: c_int, mode: mode_t) -> c_int {
    let f = real!(openat64: fn(c_int, *const c_char, c_int, mode_t) -> c_int);
    if dirfd != libc::AT_FDCWD {
        return f(dirfd, path, flags, mode);
    }
    do_open(path, flags, mode, || f(dirfd, path, flags, mode), "open")
}

#[no_mangle]
pub unsafe extern "C" fn creat64(path: *const c_char, mode: mode_t) -> c_int {
    open64(path, libc::O_CREAT | libc::O_WRONLY | libc::O_TRUNC, mode)
}

enum WDec {
    Pass,
    Fail(c_int),
    Short(u64, Option<c_int>), // accept k bytes
}

/// decide the outcome of a write of `len` bytes at the fd's current position
fn decide_write(st: &mut ShimState, fd: c_int, len: u64, at: Option<u64>) -> WDec {
    let n = st.count("write");
    let (pos, size) = {
        let fi = st.fds.get(&fd).unwrap();
        (at.unwrap_or(if fi.append { fi.size } else { fi.pos }), fi.size)
    };
    let plan = st.plan.clone();
    let mut allow = len;
    let mut err: Option<c_int> = None;
    for f in &plan {
        match f {
            Fault::Nth { call, n: k, errno, sticky } if call == "write" => {
                if n == *k || (*sticky && n > *k) {
                    st.fire(f);
                    return WDec::Fail(*errno);
                }
            }
            Fault::Eintr { call, n: k, burst } if call == "write" => {
                if n >= *k && n < *k + *burst {
                    st.fire(f);
                    return WDec::Fail(libc::EINTR);
                }
            }
            Fault::Short { n: k, keep } => {
                if n == *k && *keep < allow && *keep > 0 {
                    st.fire(f);
                    allow = *keep;
                }
            }
            Fault::FileLimit { bytes } => {
                if pos + allow > *bytes {
                    st.fire(f);
                    let ok = bytes.saturating_sub(pos);
                    if ok < allow {
                        allow = ok;
                        err = Some(libc::EFBIG);
                    }
                }
            }
            Fault::Capacity { bytes, errno } => {
                let growth = (pos + allow).saturating_sub(size);
                let left = bytes.saturating_sub(st.grown);
                if growth > left {
                    st.fire(f);
                    // bytes that fit: the overwrite part plus what is left of the capacity
                    let overwrite = size.saturating_sub(pos).min(allow);
                    let ok = overwrite + left;
                    if ok < allow {
                        allow = ok;
                        err = Some(*errno);
                    }
                }
            }
            _ => {}
        }
    }
    if allow == len {
        WDec::Pass
    } else if allow == 0 {
        WDec::Fail(err.unwrap_or(libc::ENOSPC))
    } else {
        WDec::Short(allow, err)
    }
}

fn after_write(st: &mut ShimState, fd: c_int, wrote: u64, at: Option<u64>) {
    let mut path = String::new();
    if let Some(fi) = st.fds.get_mut(&fd) {
        let start = at.unwrap_or(if fi.append { fi.size } else { fi.pos });
        let end = start + wrote;
        if at.is_none() {
            fi.pos = end;
        }
        if end > fi.size {
            let g = end - fi.size;
            fi.size = end;
            st.grown += g;
        }
        path = fi.path.clone();
    }
    st.touch(&path);
}

unsafe fn do_write(fd: c_int, len: u64, at: Option<u64>, name: &str, real: impl Fn(u64) -> ssize_t) -> ssize_t {
    if !is_armed() {
        return real(len);
    }
    let dec = with_state(|st| {
        if !st.fds.contains_key(&fd) {
            return None;
        }
        SEEN_ANY.fetch_add(1, Ordering::Relaxed);
        let idx = st.events.len();
        st.observe(idx, 0);
        Some(decide_write(st, fd, len, at))
    })
    .flatten();
    match dec {
        None => real(len),
        Some(WDec::Fail(e)) => {
            with_state(|st| {
                let t = st.fds.get(&fd).map(|f| st.rel(&f.path)).unwrap_or_default();
                let i = st.log(name, t, len, errno_name(e).to_string());
                st.observe(i, 1);
            });
            set_errno(e);
            -1
        }
        Some(WDec::Pass) => {
            let r = real(len);
            let err = *libc::__errno_location();
            with_state(|st| {
                let t = st.fds.get(&fd).map(|f| st.rel(&f.path)).unwrap_or_default();
                if r >= 0 {
                    after_write(st, fd, r as u64, at);
                }
                let res = if r >= 0 { if r as u64 == len { "ok".to_string() } else { format!("realshort:{}", r) } } else { format!("real:{}", errno_name(err)) };
                let i = st.log(name, t, len, res);
                st.observe(i, 1);
            });
            set_errno(err);
            r
        }
        Some(WDec::Short(k, _)) => {
            let r = real(k);
            let err = *libc::__errno_location();
            with_state(|st| {
                let t = st.fds.get(&fd).map(|f| st.rel(&f.path)).unwrap_or_default();
                if r >= 0 {
                    after_write(st, fd, r as u64, at);
                }
                let i = st.log(name, t, len, format!("short:{}", r));
                st.observe(i, 1);
            });
            set_errno(err);
            r
        }
    }
}

#[no_mangle]
pub unsafe extern "C" fn write(fd: c_int, buf: *const c_void, count: size_t) -> ssize_t {
    let f = real!(write: fn(c_int, *const c_void, size_t) -> ssize_t);
    do_write(fd, count as u64, None, "write", |n| f(fd, buf, n as size_t))
}

#[no_mangle]
pub unsafe extern "C" fn pwrite64(fd: c_int, buf: *const c_void, count: size_t, off: off64_t) -> ssize_t {
    let f = real!(pwrite64: fn(c_int, *const c_void, size_t, off64_t) -> ssize_t);
    do_write(fd, count as u64, Some(off as u64), "pwrite", |n| f(fd, buf, n as size_t, off))
}

#[no_mangle]
pub unsafe extern "C" fn writev(fd: c_int, iov: *const libc::iovec, iovcnt: c_int) -> ssize_t {
    let f = real!(writev: fn(c_int, *const libc::iovec, c_int) -> ssize_t);
    if !is_armed() {
        return f(fd, iov, iovcnt);
    }
    let tracked = with_state(|st| st.fds.contains_key(&fd)).unwrap_or(false);
    if !tracked {
        return f(fd, iov, iovcnt);
    }
    // flatten: treat as one write of the concatenation (a short count is legal for writev)
    let mut v: Vec<u8> = Vec::new();
    for i in 0..iovcnt as isize {
        let e = &*iov.offset(i);
        if e.iov_len > 0 {
            v.extend_from_slice(std::slice::from_raw_parts(e.iov_base as *const u8, e.iov_len));
        }
    }
    let w = real!(write: fn(c_int, *const c_void, size_t) -> ssize_t);
    do_write(fd, v.len() as u64, None, "writev", |n| w(fd, v.as_ptr() as *const c_void, n as size_t))
}

#[no_mangle]
pub unsafe extern "C" fn lseek64(fd: c_int, off: off64_t, whence: c_int) -> off64_t {
    let f = real!(lseek64: fn(c_int, off64_t, c_int) -> off64_t);
    if !is_armed() {
        return f(fd, off, whence);
    }
    let tracked = with_state(|st| st.fds.contains_key(&fd)).unwrap_or(false);
    if !tracked {
        return f(fd, off, whence);
    }
    let pre = with_state(|st| {
        let n = st.count("lseek");
        st.decide_simple("lseek", n)
    })
    .flatten();
    if let Some(e) = pre {
        with_state(|st| {
            let t = st.fds.get(&fd).map(|f| st.rel(&f.path)).unwrap_or_default();
            st.log("lseek", t, 0, errno_name(e).to_string());
        });
        set_errno(e);
        return -1;
    }
    let r = f(fd, off, whence);
    let err = *libc::__errno_location();
    if r >= 0 {
        with_state(|st| {
            if let Some(fi) = st.fds.get_mut(&fd) {
                fi.pos = r as u64;
            }
            // seeks are counted, not logged (an encrypted save issues >1000 of them)
            *st.counts.entry("lseek_ok".into()).or_insert(0) += 1;
        });
    }
    set_errno(err);
    r
}

#[no_mangle]
pub unsafe extern "C" fn lseek(fd: c_int, off: off64_t, whence: c_int) -> off64_t {
    lseek64(fd, off, whence)
}

unsafe fn do_fd_simple(fd: c_int, name: &'static str, perform_anyway: bool, real: impl Fn() -> c_int) -> c_int {
    if !is_armed() {
        return real();
    }
    let pre = with_state(|st| {
        if !st.fds.contains_key(&fd) {
            return None;
        }
        SEEN_ANY.fetch_add(1, Ordering::Relaxed);
        let n = st.count(name);
        let idx = st.events.len();
        st.observe(idx, 0);
        Some(st.decide_simple(name, n))
    })
    .flatten();
    match pre {
        None => real(),
        Some(Some(e)) => {
            if perform_anyway {
                real();
            }
            with_state(|st| {
                let t = st.fds.get(&fd).map(|f| st.rel(&f.path)).unwrap_or_default();
                if name == "close" {
                    st.fds.remove(&fd);
                }
                let i = st.log(name, t, 0, errno_name(e).to_string());
                st.observe(i, 1);
            });
            set_errno(e);
            -1
        }
        Some(None) => {
            let r = real();
            let err = *libc::__errno_location();
            with_state(|st| {
                let t = st.fds.get(&fd).map(|f| st.rel(&f.path)).unwrap_or_default();
                let p = st.fds.get(&fd).map(|f| f.path.clone()).unwrap_or_default();
                if name == "close" {
                    st.fds.remove(&fd);
                }
                if name == "ftruncate" {
                    st.touch(&p);
                }
                let res = if r >= 0 { "ok".to_string() } else { format!("real:{}", errno_name(err)) };
                let i = st.log(name, t, 0, res);
                st.observe(i, 1);
            });
            set_errno(err);
            r
        }
    }
}

#[no_mangle]
pub unsafe extern "C" fn close(fd: c_int) -> c_int {
    let f = real!(close: fn(c_int) -> c_int);
    do_fd_simple(fd, "close", true, || f(fd))
}

#[no_mangle]
pub unsafe extern "C" fn fsync(fd: c_int) -> c_int {
    let f = real!(fsync: fn(c_int) -> c_int);
    do_fd_simple(fd, "fsync", false, || f(fd))
}

#[no_mangle]
pub unsafe extern "C" fn fdatasync(fd: c_int) -> c_int {
    let f = real!(fdatasync: fn(c_int) -> c_int);
    do_fd_simple(fd, "fsync", false, || f(fd))
}

#[no_mangle]
pub unsafe extern "C" fn ftruncate64(fd: c_int, len: off64_t) -> c_int {
    let f = real!(ftruncate64: fn(c_int, off64_t) -> c_int);
    let r = do_fd_simple(fd, "ftruncate", false, || f(fd, len));
    if r == 0 && is_armed() {
        with_state(|st| {
            if let Some(fi) = st.fds.get_mut(&fd) {
                fi.size = len as u64;
            }
        });
    }
    r
}

#[no_mangle]
pub unsafe extern "C" fn ftruncate(fd: c_int, len: off64_t) -> c_int {
    ftruncate64(fd, len)
}

unsafe fn do_path2(old: *const c_char, new: *const c_char, name: &'static str, real: impl Fn() -> c_int) -> c_int {
    if !is_armed() {
        return real();
    }
    let o = abs_path(&cstr(old));
    let nw = abs_path(&cstr(new));
    let pre = with_state(|st| {
        if !st.under_root(&o) && !st.under_root(&nw) {
            return None;
        }
        SEEN_ANY.fetch_add(1, Ordering::Relaxed);
        let n = st.count(name);
        let idx = st.events.len();
        st.observe(idx, 0);
        Some(st.decide_simple(name, n))
    })
    .flatten();
    match pre {
        None => real(),
        Some(Some(e)) => {
            with_state(|st| {
                let t = format!("{} -> {}", st.rel(&o), st.rel(&nw));
                let i = st.log(name, t, 0, errno_name(e).to_string());
                st.observe(i, 1);
            });
            set_errno(e);
            -1
        }
        Some(None) => {
            let r = real();
            let err = *libc::__errno_location();
            with_state(|st| {
                let t = format!("{} -> {}", st.rel(&o), st.rel(&nw));
                st.touch(&o);
                st.touch(&nw);
                let res = if r >= 0 { "ok".to_string() } else { format!("real:{}", errno_name(err)) };
                let i = st.log(name, t, 0, res);
                st.observe(i, 1);
            });
            set_errno(err);
            r
        }
    }
}

#[no_mangle]
pub unsafe extern "C" fn rename(old: *const c_char, new: *const c_char) -> c_int {
    let f = real!(rename: fn(*const c_char, *const c_char) -> c_int);
    do_path2(old, new, "rename", || f(old, new))
}

#[no_mangle]
pub unsafe extern "C" fn renameat(ofd: c_int, old: *const c_char, nfd: c_int, new: *const c_char) -> c_int {
    let f = real!(renameat: fn(c_int, *const c_char, c_int, *const c_char) -> c_int);
    if ofd != libc::AT_FDCWD || nfd != libc::AT_FDCWD {
        return f(ofd, old, nfd, new);
    }
    do_path2(old, new, "rename", || f(ofd, old, nfd, new))
}

#[no_mangle]
pub unsafe extern "C" fn renameat2(ofd: c_int, old: *const c_char, nfd: c_int, new: *const c_char, flags: c_uint) -> c_int {
    let f = real!(renameat2: fn(c_int, *const c_char, c_int, *const c_char, c_uint) -> c_int);
    if ofd != libc::AT_FDCWD || nfd != libc::AT_FDCWD {
        return f(ofd, old, nfd, new, flags);
    }
    do_path2(old, new, "rename", || f(ofd, old, nfd, new, flags))
}

#[no_mangle]
pub unsafe extern "C" fn link(old: *const c_char, new: *const c_char) -> c_int {
    let f = real!(link: fn(*const c_char, *const c_char) -> c_int);
    do_path2(old, new, "link", || f(old, new))
}

unsafe fn do_path1(path: *const c_char, name: &'static str, real: impl Fn() -> c_int) -> c_int {
    if !is_armed() {
        return real();
    }
    let p = abs_path(&cstr(path));
    let pre = with_state(|st| {
        if !st.under_root(&p) {
            return None;
        }
        SEEN_ANY.fetch_add(1, Ordering::Relaxed);
        let n = st.count(name);
        let idx = st.events.len();
        st.observe(idx, 0);
        Some(st.decide_simple(name, n))
    })
    .flatten();
    match pre {
        None => real(),
        Some(Some(e)) => {
            with_state(|st| {
                let t = st.rel(&p);
                let i = st.log(name, t, 0, errno_name(e).to_string());
                st.observe(i, 1);
            });
            set_errno(e);
            -1
        }
        Some(None) => {
            let r = real();
            let err = *libc::__errno_location();
            with_state(|st| {
                let t = st.rel(&p);
                st.touch(&p);
                let res = if r >= 0 { "ok".to_string() } else { format!("real:{}", errno_name(err)) };
                let i = st.log(name, t, 0, res);
                st.observe(i, 1);
            });
            set_errno(err);
            r
        }
    }
}

#[no_mangle]
pub unsafe extern "C" fn unlink(path: *const c_char) -> c_int {
    let f = real!(unlink: fn(*const c_char) -> c_int);
    do_path1(path, "unlink", || f(path))
}

#[no_mangle]
pub unsafe extern "C" fn unlinkat(dirfd: c_int, path: *const c_char, flags: c_int) -> c_int {
    let f = real!(unlinkat: fn(c_int, *const c_char, c_int) -> c_int);
    if dirfd != libc::AT_FDCWD {
        return f(dirfd, path, flags);
    }
    do_path1(path, "unlink", || f(dirfd, path, flags))
}

#[no_mangle]
pub unsafe extern "C" fn truncate64(path: *const c_char, len: off64_t) -> c_int {
    let f = real!(truncate64: fn(*const c_char, off64_t) -> c_int);
    do_path1(path, "truncate", || f(path, len))
}

// ------------------------------------------------------------------------------------------------
// S5: hash keys
// ------------------------------------------------------------------------------------------------

/// Set the hash-key stream of the *current* thread. Must be called before the thread creates its
/// first `RandomState`.
pub fn set_thread_hash_seed(seed: u64) {
    HASH_STREAM.with(|h| h.set((true, seed)));
}

pub fn thread_hash_calls() -> u64 {
    HASH_CALLS.with(|c| c.get())
}

#[no_mangle]
pub unsafe extern "C" fn getrandom(buf: *mut c_void, buflen: size_t, flags: c_uint) -> ssize_t {
    let (on, mut s) = HASH_STREAM.with(|h| h.get());
    if on {
        let out = std::slice::from_raw_parts_mut(buf as *mut u8, buflen);
        for c in out.chunks_mut(8) {
            let v = crate::rng::splitmix64(&mut s).to_le_bytes();
            c.copy_from_slice(&v[..c.len()]);
        }
        HASH_STREAM.with(|h| h.set((true, s)));
        HASH_CALLS.with(|c| c.set(c.get() + 1));
        return buflen as ssize_t;
    }
    let f = real!(getrandom: fn(*mut c_void, size_t, c_uint) -> ssize_t);
    f(buf, buflen, flags)
}

// ------------------------------------------------------------------------------------------------
// self tests (exit 2 of the harness if the seams stopped working)
// ------------------------------------------------------------------------------------------------

pub fn self_test(scratch: &str) -> Result<(), String> {
    use std::io::Write;
    let root = format!("{}/selftest", scratch);
    let _ = std::fs::remove_dir_all(&root);
    std::fs::create_dir_all(&root).map_err(|e| e.to_string())?;
    let dest = format!("{}/d.bin", root);
    let tmp = format!("{}/d.bintmp", root);
    arm(ShimState::new(&root, &dest, vec![]));
    let r = (|| -> std::io::Result<()> {
        let mut w = std::io::BufWriter::new(std::fs::File::create(&tmp)?);
        w.write_all(b"hello")?;
        w.flush()?;
        drop(w);
        std::fs::rename(&tmp, &dest)?;
        std::fs::remove_file(&dest)?;
        Ok(())
    })();
    let st = disarm().ok_or("no state")?;
    r.map_err(|e| e.to_string())?;
    let calls: Vec<&str> = st.events.iter().map(|e| e.call.as_str()).collect();
    let want = ["open", "write", "close", "rename", "unlink"];
    if calls != want {
        return Err(format!("S3 self-test: expected {:?}, saw {:?}", want, calls));
    }
    // fault: capacity
    arm(ShimState::new(&root, &dest, vec![Fault::Capacity { bytes: 3, errno: libc::ENOSPC }]));
    let r = (|| -> std::io::Result<()> {
        let mut f = std::fs::File::create(&tmp)?;
        f.write_all(b"hello")?;
        Ok(())
    })();
    let st = disarm().ok_or("no state")?;
    if r.is_ok() {
        return Err("S3 self-test: capacity fault did not surface".into());
    }
    let n = std::fs::read(&tmp).map(|v| v.len()).unwrap_or(999);
    if n != 3 {
        return Err(format!("S3 self-test: capacity 3 left {} bytes; events {:?}", n, st.events));
    }
    let _ = std::fs::remove_dir_all(&root);
    // S5: same seed => same iteration order; a call must have been seen
    fn order(seed: u64) -> (Vec<u32>, u64) {
        std::thread::spawn(move || {
            set_thread_hash_seed(seed);
            let mut m = std::collections::HashMap::new();
            for i in 0..64u32 {
                m.insert(i, i);
            }
            (m.keys().cloned().collect::<Vec<_>>(), thread_hash_calls())
        })
        .join()
        .unwrap()
    }
    let (a, ca) = order(1);
    let (b, _) = order(1);
    let (c, _) = order(2);
    if ca == 0 {
        return Err("S5 self-test: std did not ask our getrandom symbol for hash keys".into());
    }
    if a != b {
        return Err("S5 self-test: same seed gave different iteration orders".into());
    }
    if a == c {
        return Err("S5 self-test: different seeds gave the same iteration order".into());
    }
    Ok(())
}
