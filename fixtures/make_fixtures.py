#!/usr/bin/env python3
"""Small valid workbooks written by hand (not by the library under test): constructs that other producers emit and
the library's own writer never does. They join the corpus of C02/C04/C11/C12 as fx_*.xlsx.
Run: python3 make_fixtures.py   (the generated files are committed; this script documents how they were made)"""
import zipfile, os

CT = '''<?xml version="1.0" encoding="UTF-8" standalone="yes"?>
<Types xmlns="http://schemas.openxmlformats.org/package/2006/content-types"><Default Extension="rels" ContentType="application/vnd.openxmlformats-package.relationships+xml"/><Default Extension="xml" ContentType="application/xml"/><Override PartName="/xl/workbook.xml" ContentType="application/vnd.openxmlformats-officedocument.spreadsheetml.sheet.main+xml"/>%s<Override PartName="/xl/styles.xml" ContentType="application/vnd.openxmlformats-officedocument.spreadsheetml.styles+xml"/><Override PartName="/xl/sharedStrings.xml" ContentType="application/vnd.openxmlformats-officedocument.spreadsheetml.sharedStrings+xml"/><Override PartName="/xl/theme/theme1.xml" ContentType="application/vnd.openxmlformats-officedocument.theme+xml"/></Types>'''
RELS = '''<?xml version="1.0" encoding="UTF-8" standalone="yes"?>
<Relationships xmlns="http://schemas.openxmlformats.org/package/2006/relationships"><Relationship Id="rId1" Type="http://schemas.openxmlformats.org/officeDocument/2006/relationships/officeDocument" Target="xl/workbook.xml"/></Relationships>'''
STYLES = '''<?xml version="1.0" encoding="UTF-8" standalone="yes"?>
<styleSheet xmlns="http://schemas.openxmlformats.org/spreadsheetml/2006/main"><fonts count="2"><font><sz val="11"/><name val="Calibri"/><family val="2"/><scheme val="minor"/></font><font><b/><sz val="11"/><name val="Calibri"/><family val="2"/></font></fonts><fills count="2"><fill><patternFill patternType="none"/></fill><fill><patternFill patternType="gray125"/></fill></fills><borders count="1"><border><left/><right/><top/><bottom/><diagonal/></border></borders><cellStyleXfs count="1"><xf numFmtId="0" fontId="0" fillId="0" borderId="0"/></cellStyleXfs><cellXfs count="3"><xf numFmtId="0" fontId="0" fillId="0" borderId="0" xfId="0"/><xf numFmtId="0" fontId="1" fillId="0" borderId="0" xfId="0" applyFont="1"/><xf numFmtId="0" fontId="0" fillId="0" borderId="0" xfId="0" applyProtection="1"><protection locked="0"/></xf></cellXfs><cellStyles count="1"><cellStyle name="Normal" xfId="0" builtinId="0"/></cellStyles></styleSheet>'''

def theme():
    # the theme of a corpus file is reused verbatim (a theme is mandatory for Excel, irrelevant here)
    z = zipfile.ZipFile('/repo/tests/test_files/aaa.xlsx')
    for n in z.namelist():
        if n.startswith('xl/theme/'):
            return z.read(n)
    return b''

def workbook(names):
    sheets = ''.join('<sheet name="%s" sheetId="%d" r:id="rId%d"/>' % (n, i + 1, i + 1) for i, n in enumerate(names))
    wb = '<?xml version="1.0" encoding="UTF-8" standalone="yes"?>\n<workbook xmlns="http://schemas.openxmlformats.org/spreadsheetml/2006/main" xmlns:r="http://schemas.openxmlformats.org/officeDocument/2006/relationships"><bookViews><workbookView activeTab="0"/></bookViews><sheets>%s</sheets></workbook>' % sheets
    rels = ''.join('<Relationship Id="rId%d" Type="http://schemas.openxmlformats.org/officeDocument/2006/relationships/worksheet" Target="worksheets/sheet%d.xml"/>' % (i + 1, i + 1) for i in range(len(names)))
    n = len(names)
    rels += '<Relationship Id="rId%d" Type="http://schemas.openxmlformats.org/officeDocument/2006/relationships/styles" Target="styles.xml"/><Relationship Id="rId%d" Type="http://schemas.openxmlformats.org/officeDocument/2006/relationships/sharedStrings" Target="sharedStrings.xml"/><Relationship Id="rId%d" Type="http://schemas.openxmlformats.org/officeDocument/2006/relationships/theme" Target="theme/theme1.xml"/>' % (n + 1, n + 2, n + 3)
    return wb, '<?xml version="1.0" encoding="UTF-8" standalone="yes"?>\n<Relationships xmlns="http://schemas.openxmlformats.org/package/2006/relationships">%s</Relationships>' % rels

def sst(items):
    body = ''.join(items)
    return '<?xml version="1.0" encoding="UTF-8" standalone="yes"?>\n<sst xmlns="http://schemas.openxmlformats.org/spreadsheetml/2006/main" count="%d" uniqueCount="%d">%s</sst>' % (len(items) + 2, len(items), body)

def sheet(cols, rows):
    return '<?xml version="1.0" encoding="UTF-8" standalone="yes"?>\n<worksheet xmlns="http://schemas.openxmlformats.org/spreadsheetml/2006/main" xmlns:r="http://schemas.openxmlformats.org/officeDocument/2006/relationships"><sheetViews><sheetView workbookViewId="0"/></sheetViews><sheetFormatPr defaultRowHeight="15"/>%s<sheetData>%s</sheetData></worksheet>' % (cols, rows)

def write(name, names, sheets, strings):
    wb, wbrels = workbook(names)
    ov = ''.join('<Override PartName="/xl/worksheets/sheet%d.xml" ContentType="application/vnd.openxmlformats-officedocument.spreadsheetml.worksheet+xml"/>' % (i + 1) for i in range(len(names)))
    with zipfile.ZipFile(name, 'w', zipfile.ZIP_DEFLATED) as z:
        z.writestr('[Content_Types].xml', CT % ov)
        z.writestr('_rels/.rels', RELS)
        z.writestr('xl/workbook.xml', wb)
        z.writestr('xl/_rels/workbook.xml.rels', wbrels)
        z.writestr('xl/styles.xml', STYLES)
        z.writestr('xl/theme/theme1.xml', theme())
        z.writestr('xl/sharedStrings.xml', sst(strings))
        for i, s in enumerate(sheets):
            z.writestr('xl/worksheets/sheet%d.xml' % (i + 1), s)

# fx_foreign1: duplicate <si> entries (plain twice; once more with a phonetic run), <v/> of a t="str" cell, blanks in a
# cached text result, neighbouring columns that differ only in bestFit, a style-only row, protection-only style
strings = ['<si><t>dup</t></si>', '<si><t>other</t></si>', '<si><t>dup</t></si>', '<si><t>only2</t></si>',
           '<si><t>dup</t><rPh sb="0" eb="1"><t>x</t></rPh><phoneticPr fontId="1"/></si>', '<si><t xml:space="preserve"> lead and trail </t></si>',
           '<si><r><t>ri</t></r><r><rPr><b/><sz val="11"/><rFont val="Calibri"/></rPr><t>ch</t></r></si>', '<si><t>rich</t></si>']
cols = '<cols><col min="2" max="2" width="12" customWidth="1"/><col min="3" max="3" width="12" customWidth="1"/><col min="4" max="4" width="12" bestFit="1" customWidth="1"/><col min="5" max="5" width="12" customWidth="1"/><col min="7" max="8" width="20.5" bestFit="1" customWidth="1"/></cols>'
rows1 = ('<row r="1"><c r="A1" t="s"><v>0</v></c><c r="B1" t="s"><v>1</v></c><c r="C1" t="str"><f>""</f><v/></c><c r="D1" t="str"><f>A1&amp;" x "</f><v>dup x </v></c><c r="E1"><v>12.5</v></c><c r="F1" t="b"><v>1</v></c><c r="G1" s="2"><v>7</v></c></row>'
         '<row r="2"><c r="A2" t="s"><v>2</v></c><c r="B2" t="s"><v>5</v></c><c r="C2" t="s"><v>6</v></c><c r="D2" t="s"><v>7</v></c><c r="E2" t="e"><v>#N/A</v></c></row>'
         '<row r="3"><c r="A3" t="inlineStr"><is><t>inline one</t></is></c><c r="B3" s="1" t="s"><v>4</v></c></row>'
         '<row r="5" ht="30" customHeight="1"/>')
rows2 = '<row r="1"><c r="A1" t="s"><v>3</v></c><c r="B1" t="s"><v>0</v></c></row><row r="4"><c r="C4"><f>SUM(Sheet1!E1:E1)</f><v>12.5</v></c></row>'
rows3 = '<row r="2"><c r="B2" t="s"><v>2</v></c><c r="C2" t="s"><v>1</v></c></row>'
write('fx_foreign1.xlsx', ['Sheet1', 'Second', 'Third'], [sheet(cols, rows1), sheet('', rows2), sheet('', rows3)], strings)
print('written', [f for f in os.listdir('.') if f.endswith('.xlsx')])
