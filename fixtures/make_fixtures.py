#!/usr/bin/env python3
"""Small valid workbooks written by hand (not by the library under test): constructs that other producers emit and
the library's own writer never does. They join the corpus of C02/C04/C11/C12 as fx_*.xlsx.
Run: python3 make_fixtures.py   (the generated files are committed; this script documents how they were made)"""
import zipfile, os

CT = '''<?xml version="1.0" encoding="UTF-8" standalone="yes"?>
<Types xmlns="http://schemas.openxmlformats.org/package/2006/content-types"><Default Extension="rels" ContentType="application/vnd.openxmlformats-package.relationships+xml"/><Default Extension="xml" ContentType="application/xml"/><Override PartName="/xl/workbook.xml" ContentType="application/vnd.openxmlformats-officedocument.spreadsheetml.sheet.main+xml"/>%s<Override PartName="/xl/styles.xml" ContentType="application/vnd.openxmlformats-officedocument.spreadsheetml.styles+xml"/><Override PartName="/xl/sharedStrings.xml" ContentType="application/vnd.openxmlformats-officedocument.spreadsheetml.sharedStrings+xml"/><Override PartName="/xl/theme/theme1.xml" ContentType="application/vnd.openxmlformats-officedocument.theme+xml"/></Types>'''
RELS = '''<?xml version="1.0" encoding="UTF-8" standalone="yes"?>
<Relationships xmlns="http://schemas.openxmlformats.org/package/2006/relationships"><Relationship Id="rId1" Type="http://schemas.openxmlformats.org/officeDocument/2006/relationships/officeDocument" Target="xl/workbook.xml"/></Relationships>'''
STYLES = '''<?xml version="1.0" encoding="UTF-8" standalone="yes"?>
<styleSheet xmlns="http://schemas.openxmlformats.org/spreadsheetml/2006/main"><fonts count="2"><font><sz val="11"/><name val="Calibri"/><family val="2"/><scheme val="minor"/></font><font><b/><sz val="11"/><name val="Calibri"/><family val="2"/></font></fonts><fills count="2"><fill><patternFill patternType="none"/></fill><fill><patternFill patternType="gray125"/></fill></fills><borders count="1"><border><left/><right/><top/><bottom/><diagonal/></border></borders><cellStyleXfs count="1"><xf numFmtId="0" fontId="0" fillId="0" borderId="0"/></cellStyleXfs><cellXfs count="3"><xf numFmtId="0" fontId="0" fillId="0" borderId="0" xfId="0"/><xf numFmtId="0" fontId="1" fillId="0" borderId="0" xfId="0" applyFont="1"/><xf numFmtId="0" fontId="0" fillId="0" borderId="0" xfId="0" applyProtection="1"><protection locked="0"/></xf></cellXfs><cellStyles count="1"><cellStyle name="Normal" xfId="0" builtinId="0"/></cellStyles></styleSheet>'''

def theme():
    # the theme of a corpus file is reused verbatim (a theme is mandatory for Excel, irrelevant here)
    z = zipfile.ZipFile('/repo/tests/test_files/aaa.xlsx')
    for n in z.namelist():
        if n.startswith('xl/theme/'):
            return z.read(n)
    return b''

def workbook(names):
    sheets = ''.join('<sheet name="%s" sheetId="%d" r:id="rId%d"/>' % (n, i + 1, i + 1) for i, n in enumerate(names))
    wb = '<?xml version="1.0" encoding="UTF-8" standalone="yes"?>\n<workbook xmlns="http://schemas.openxmlformats.org/spreadsheetml/2006/main" xmlns:r="http://schemas.openxmlformats.org/officeDocument/2006/relationships"><bookViews><workbookView activeTab="0"/></bookViews><sheets>%s</sheets></workbook>' % sheets
    rels = ''.join('<Relationship Id="rId%d" Type="http://schemas.openxmlformats.org/officeDocument/2006/relationships/worksheet" Target="worksheets/sheet%d.xml"/>' % (i + 1, i + 1) for i in range(len(names)))
    n = len(names)
    rels += '<Relationship Id="rId%d" Type="http://schemas.openxmlformats.org/officeDocument/2006/relationships/styles" Target="styles.xml"/><Relationship Id="rId%d" Type="http://schemas.openxmlformats.org/officeDocument/2006/relationships/sharedStrings" Target="sharedStrings.xml"/><Relationship Id="rId%d" Type="http://schemas.openxmlformats.org/officeDocument/2006/relationships/theme" Target="theme/theme1.xml"/>' % (n + 1, n + 2, n + 3)
    return wb, '<?xml version="1.0" encoding="UTF-8" standalone="yes"?>\n<Relationships xmlns="http://schemas.openxmlformats.org/package/2006/relationships">%s</Relationships>' % rels

def sst(items):
    body = ''.join(items)
    return '<?xml version="1.0" encoding="UTF-8" standalone="yes"?>\n<sst xmlns="http://schemas.openxmlformats.org/spreadsheetml/2006/main" count="%d" uniqueCount="%d">%s</sst>' % (len(items) + 2, len(items), body)

def sheet(cols, rows):
    return '<?xml version="1.0" encoding="UTF-8" standalone="yes"?>\n<worksheet xmlns="http://schemas.openxmlformats.org/spreadsheetml/2006/main" xmlns:r="http://schemas.openxmlformats.org/officeDocument/2006/relationships"><sheetViews><sheetView workbookViewId="0"/></sheetViews><sheetFormatPr defaultRowHeight="15"/>%s<sheetData>%s</sheetData></worksheet>' % (cols, rows)

def write(name, names, sheets, strings):
    wb, wbrels = workbook(names)
    ov = ''.join('<Override PartName="/xl/worksheets/sheet%d.xml" ContentType="application/vnd.openxmlformats-officedocument.spreadsheetml.worksheet+xml"/>' % (i + 1) for i in range(len(names)))
    with zipfile.ZipFile(name, 'w', zipfile.ZIP_DEFLATED) as z:
        z.writestr('[Content_Types].xml', CT % ov)
        z.writestr('_rels/.rels', RELS)
        z.writestr('xl/workbook.xml', wb)
        z.writestr('xl/_rels/workbook.xml.rels', wbrels)
        z.writestr('xl/styles.xml', STYLES)
        z.writestr('xl/theme/theme1.xml', theme())
        z.writestr('xl/sharedStrings.xml', sst(strings))
        for i, s in enumerate(sheets):
            z.writestr('xl/worksheets/sheet%d.xml' % (i + 1), s)

# fx_foreign1: duplicate <si> entries (plain twice; once more with a phonetic run), <v/> of a t="str" cell, blanks in a
# cached text result, neighbouring columns that differ only in bestFit, a style-only row, protection-only style
strings = ['<si><t>dup</t></si>', '<si><t>other</t></si>', '<si><t>dup</t></si>', '<si><t>only2</t></si>',
           '<si><t>dup</t><rPh sb="0" eb="1"><t>x</t></rPh><phoneticPr fontId="1"/></si>', '<si><t xml:space="preserve"> lead and trail </t></si>',
           '<si><r><t>ri</t></r><r><rPr><b/><sz val="11"/><rFont val="Calibri"/></rPr><t>ch</t></r></si>', '<si><t>rich</t></si>']
cols = '<cols><col min="2" max="2" width="12" customWidth="1"/><col min="3" max="3" width="12" customWidth="1"/><col min="4" max="4" width="12" bestFit="1" customWidth="1"/><col min="5" max="5" width="12" customWidth="1"/><col min="7" max="8" width="20.5" bestFit="1" customWidth="1"/></cols>'
rows1 = ('<row r="1"><c r="A1" t="s"><v>0</v></c><c r="B1" t="s"><v>1</v></c><c r="C1" t="str"><f>""</f><v/></c><c r="D1" t="str"><f>A1&amp;" x "</f><v>dup x </v></c><c r="E1"><v>12.5</v></c><c r="F1" t="b"><v>1</v></c><c r="G1" s="2"><v>7</v></c></row>'
         '<row r="2"><c r="A2" t="s"><v>2</v></c><c r="B2" t="s"><v>5</v></c><c r="C2" t="s"><v>6</v></c><c r="D2" t="s"><v>7</v></c><c r="E2" t="e"><v>#N/A</v></c></row>'
         '<row r="3"><c r="A3" t="inlineStr"><is><t>inline one</t></is></c><c r="B3" s="1" t="s"><v>4</v></c></row>'
         '<row r="5" ht="30" customHeight="1"/>')
rows2 = '<row r="1"><c r="A1" t="s"><v>3</v></c><c r="B1" t="s"><v>0</v></c></row><row r="4"><c r="C4"><f>SUM(Sheet1!E1:E1)</f><v>12.5</v></c></row>'
rows3 = '<row r="2"><c r="B2" t="s"><v>2</v></c><c r="C2" t="s"><v>1</v></c></row>'
write('fx_foreign1.xlsx', ['Sheet1', 'Second', 'Third'], [sheet(cols, rows1), sheet('', rows2), sheet('', rows3)], strings)

# fx_many_comments: twelve sheets, each with one comment of its own (comments1..12.xml, vmlDrawing1..12.vml): the
# part numbers of one family reach two digits
VML = """<xml xmlns:v="urn:schemas-microsoft-com:vml"
 xmlns:o="urn:schemas-microsoft-com:office:office"
 xmlns:x="urn:schemas-microsoft-com:office:excel">
 <o:shapelayout v:ext="edit">
  <o:idmap v:ext="edit" data="%d"/>
 </o:shapelayout><v:shapetype id="_x0000_t202" coordsize="21600,21600" o:spt="202"
  path="m,l,21600r21600,l21600,xe">
  <v:stroke joinstyle="miter"/>
  <v:path gradientshapeok="t" o:connecttype="rect"/>
 </v:shapetype><v:shape id="_x0000_s%d" type="#_x0000_t202" style='position:absolute;
  margin-left:228pt;margin-top:43.5pt;width:96pt;height:59.25pt;z-index:1;
  visibility:hidden' fillcolor="#ffffe1" o:insetmode="auto">
  <v:fill color2="#ffffe1"/>
  <v:shadow on="t" color="black" obscured="t"/>
  <v:path o:connecttype="none"/>
  <v:textbox style='mso-direction-alt:auto'>
   <div style='text-align:left'></div>
  </v:textbox>
  <x:ClientData ObjectType="Note">
   <x:MoveWithCells/>
   <x:SizeWithCells/>
   <x:Anchor>
    2, 15, 1, 10, 4, 15, 4, 4</x:Anchor>
   <x:AutoFill>False</x:AutoFill>
   <x:Row>1</x:Row>
   <x:Column>1</x:Column>
  </x:ClientData>
 </v:shape></xml>"""
def many_comments(name, n):
    names = ['N%d' % (i + 1) for i in range(n)]
    wb, wbrels = workbook(names)
    ov = ''.join('<Override PartName="/xl/worksheets/sheet%d.xml" ContentType="application/vnd.openxmlformats-officedocument.spreadsheetml.worksheet+xml"/><Override PartName="/xl/comments%d.xml" ContentType="application/vnd.openxmlformats-officedocument.spreadsheetml.comments+xml"/>' % (i + 1, i + 1) for i in range(n))
    ct = (CT % ov).replace('<Default Extension="xml"', '<Default Extension="vml" ContentType="application/vnd.openxmlformats-officedocument.vmlDrawing"/><Default Extension="xml"')
    with zipfile.ZipFile(name, 'w', zipfile.ZIP_DEFLATED) as z:
        z.writestr('[Content_Types].xml', ct)
        z.writestr('_rels/.rels', RELS)
        z.writestr('xl/workbook.xml', wb)
        z.writestr('xl/_rels/workbook.xml.rels', wbrels)
        z.writestr('xl/styles.xml', STYLES)
        z.writestr('xl/theme/theme1.xml', theme())
        z.writestr('xl/sharedStrings.xml', sst(['<si><t>sheet text %d</t></si>' % (i + 1) for i in range(n)]))
        for i in range(n):
            k = i + 1
            body = '<sheetData><row r="1"><c r="A1" t="s"><v>%d</v></c></row></sheetData><legacyDrawing r:id="rId1"/>' % i
            z.writestr('xl/worksheets/sheet%d.xml' % k, '<?xml version="1.0" encoding="UTF-8" standalone="yes"?>\n<worksheet xmlns="http://schemas.openxmlformats.org/spreadsheetml/2006/main" xmlns:r="http://schemas.openxmlformats.org/officeDocument/2006/relationships">%s</worksheet>' % body)
            z.writestr('xl/worksheets/_rels/sheet%d.xml.rels' % k, '<?xml version="1.0" encoding="UTF-8" standalone="yes"?>\n<Relationships xmlns="http://schemas.openxmlformats.org/package/2006/relationships"><Relationship Id="rId1" Type="http://schemas.openxmlformats.org/officeDocument/2006/relationships/vmlDrawing" Target="../drawings/vmlDrawing%d.vml"/><Relationship Id="rId2" Type="http://schemas.openxmlformats.org/officeDocument/2006/relationships/comments" Target="../comments%d.xml"/></Relationships>' % (k, k))
            z.writestr('xl/comments%d.xml' % k, '<?xml version="1.0" encoding="UTF-8" standalone="yes"?>\n<comments xmlns="http://schemas.openxmlformats.org/spreadsheetml/2006/main"><authors><author>author %d</author></authors><commentList><comment ref="B2" authorId="0"><text><r><t>note for sheet %d</t></r></text></comment></commentList></comments>' % (k, k))
            z.writestr('xl/drawings/vmlDrawing%d.vml' % k, VML % (k, 1024 * k + 1))
many_comments('fx_many_comments.xlsx', 12)
print('written', sorted(f for f in os.listdir('.') if f.endswith('.xlsx')))
