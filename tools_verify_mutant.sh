#!/bin/bash
# usage: tools_verify_mutant.sh <worktree>  — worktree has MUTANT/{patch.diff,demo*.rs}; the change is (re)applied from patch.diff
W=$1; cd $W || exit 2
git checkout -q -- src 2>/dev/null; git clean -fdq src
if ! git apply MUTANT/patch.diff; then echo "PATCH DOES NOT APPLY"; exit 3; fi
echo "== (a) suite with change"; cargo test --offline --lib --test integration_test 2>&1 | grep -E "^test result|^test .* FAILED" 
for d in MUTANT/*.rs; do cp $d tests/demo_mutant_$(basename $d); done
echo "== (b) demo with change"; cargo test --offline $(for d in MUTANT/*.rs; do echo --test demo_mutant_$(basename $d .rs); done) 2>&1 | grep -E "^test result|^test .* FAILED|error(\[|:)" | head -20
git checkout -q -- src; git clean -fdq src
echo "== (c) demo without change"; cargo test --offline $(for d in MUTANT/*.rs; do echo --test demo_mutant_$(basename $d .rs); done) 2>&1 | grep -E "^test result|^test .* FAILED|error(\[|:)" | head -20
git apply MUTANT/patch.diff
rm -f tests/demo_mutant_*.rs
git status --short | head
