#!/bin/bash
# usage: tools_verify_mutant.sh <worktree>  — worktree has the change applied in src/ and MUTANT/{patch.diff,demo.rs}
W=$1; cd $W || exit 2
echo "== (a) suite with change"; cargo test --offline --lib --test integration_test 2>&1 | grep -E "^test result|^test .* FAILED" 
for d in MUTANT/*.rs; do cp $d tests/demo_mutant_$(basename $d); done
echo "== (b) demo with change"; cargo test --offline $(for d in MUTANT/*.rs; do echo --test demo_mutant_$(basename $d .rs); done) 2>&1 | grep -E "^test result|^test .* FAILED|error(\[|:)" | head -20
git stash -q -- src
echo "== (c) demo without change"; cargo test --offline $(for d in MUTANT/*.rs; do echo --test demo_mutant_$(basename $d .rs); done) 2>&1 | grep -E "^test result|^test .* FAILED|error(\[|:)" | head -20
git stash pop -q
rm -f tests/demo_mutant_*.rs
git status --short | head
