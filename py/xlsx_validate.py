#!/usr/bin/env python3
"""Independent OPC/SpreadsheetML package validator and decoder (stdlib only: zipfile + expat via
ElementTree). Written from ECMA-376, shares no code with umya-spreadsheet or with the Rust
mini-decoder. Implements exactly the checklist of property C02:

  * every part is well-formed XML with only legal characters (expat is strict about both)
  * every part has a content type; every relationship resolves to a part that exists
  * relationship ids, sheet ids, sheet names and part names are unique
  * worksheet children appear in CT_Worksheet order
  * rows and cells strictly ascending and inside 1..1048576 x 1..16384
  * every shared-string, style (s=), differential-format (dxfId) and relationship (r:id) index
    points inside its table
and decodes cells / formulas / hyperlinks / merged ranges / defined names / sheet list.

Usage:  xlsx_validate.py FILE...        one JSON object per file on stdout
        xlsx_validate.py --server       read one path per line on stdin, answer one JSON line each
"""
import io
import json
import re
import sys
import zipfile
import xml.etree.ElementTree as ET

NS_MAIN = "http://schemas.openxmlformats.org/spreadsheetml/2006/main"
NS_REL = "http://schemas.openxmlformats.org/officeDocument/2006/relationships"
NS_PKG_REL = "http://schemas.openxmlformats.org/package/2006/relationships"
NS_CT = "http://schemas.openxmlformats.org/package/2006/content-types"

WORKSHEET_ORDER = [
    "sheetPr", "dimension", "sheetViews", "sheetFormatPr", "cols", "sheetData", "sheetCalcPr", "sheetProtection",
    "protectedRanges", "scenarios", "autoFilter", "sortState", "dataConsolidate", "customSheetViews", "mergeCells",
    "phoneticPr", "conditionalFormatting", "dataValidations", "hyperlinks", "printOptions", "pageMargins", "pageSetup",
    "headerFooter", "rowBreaks", "colBreaks", "customProperties", "cellWatches", "ignoredErrors", "smartTags",
    "drawing", "legacyDrawing", "legacyDrawingHF", "drawingHF", "picture", "oleObjects", "controls", "webPublishItems",
    "tableParts", "extLst",
]
ORDER_INDEX = {n: i for i, n in enumerate(WORKSHEET_ORDER)}

# element -> acceptable relationship type suffixes
REL_KIND = {
    "tablePart": ("table",),
    "drawing": ("drawing",),
    "legacyDrawing": ("vmlDrawing",),
    "legacyDrawingHF": ("vmlDrawing",),
    "hyperlink": ("hyperlink",),
    "pageSetup": ("printerSettings",),
    "picture": ("image",),
    "oleObject": ("oleObject", "package"),
    "control": ("control", "ctrlProp"),
}

CELL_RE = re.compile(r"^([A-Z]{1,3})([0-9]{1,7})$")


def local(tag):
    return tag.rsplit("}", 1)[-1]


def ns_of(tag):
    return tag[1:].split("}", 1)[0] if tag.startswith("{") else ""


def col_index(letters):
    n = 0
    for ch in letters:
        n = n * 26 + (ord(ch) - 64)
    return n


def resolve(base_dir, target):
    if target.startswith("/"):
        return target[1:]
    parts = [p for p in base_dir.split("/") if p]
    for seg in target.split("/"):
        if seg == "..":
            if parts:
                parts.pop()
        elif seg in (".", ""):
            pass
        else:
            parts.append(seg)
    return "/".join(parts)


def rels_name(part):
    if "/" in part:
        d, f = part.rsplit("/", 1)
        return "%s/_rels/%s.rels" % (d, f)
    return "_rels/%s.rels" % part


def dir_of(part):
    return part.rsplit("/", 1)[0] if "/" in part else ""


XSTRING_RE = re.compile(r"_x([0-9A-Fa-f]{4})_")


def xstring(s):
    """ST_Xstring (ECMA-376 Part 1 22.9.2.19): _xHHHH_ stands for U+HHHH (left to right, non-overlapping)"""
    if "_x" not in s:
        return s
    return XSTRING_RE.sub(lambda m: chr(int(m.group(1), 16)), s)


def rst_text(el):
    """text of a CT_Rst: <t> and every <r><t>; phonetic runs are not part of the value"""
    out = []
    for c in el:
        n = local(c.tag)
        if n == "t":
            out.append(xstring(c.text or ""))
        elif n == "r":
            for t in c:
                if local(t.tag) == "t":
                    out.append(xstring(t.text or ""))
    return "".join(out)


def validate(data):
    errors = []
    result = {"errors": errors, "sheets": [], "defined_names": [], "fatal": None}
    try:
        zf = zipfile.ZipFile(io.BytesIO(data))
    except Exception as e:  # noqa
        result["fatal"] = "zip: %s" % e
        return result
    names = zf.namelist()
    if len(set(names)) != len(names):
        errors.append("duplicate part name in archive")
    bad = zf.testzip()
    if bad is not None:
        result["fatal"] = "zip: CRC error in %s" % bad
        return result
    files = {n: zf.read(n) for n in set(names)}
    trees = {}
    for n, b in files.items():
        if n.endswith(".xml") or n.endswith(".rels"):
            try:
                trees[n] = ET.fromstring(b)
            except ET.ParseError as e:
                errors.append("%s: not well-formed: %s" % (n, e))
    # text whose leading or trailing blanks matter must say so: consumers (Excel among them) are entitled to
    # drop them from a <t> without xml:space="preserve"
    XML_SPACE = "{http://www.w3.org/XML/1998/namespace}space"
    for n, t in trees.items():
        if not (n.endswith("sharedStrings.xml") or "/worksheets/" in n or "/comments" in n):
            continue
        bad_t = 0
        for el in t.iter():
            if local(el.tag) == "t" and ns_of(el.tag) == NS_MAIN:
                tx = el.text or ""
                if tx != tx.strip(" \t\r\n") and el.get(XML_SPACE) != "preserve":
                    bad_t += 1
        if bad_t:
            errors.append("%s: %d <t> element(s) with leading/trailing blanks lack xml:space=\"preserve\"" % (n, bad_t))
    # content types
    ct = trees.get("[Content_Types].xml")
    if ct is None:
        result["fatal"] = "no [Content_Types].xml"
        return result
    defaults, overrides = set(), set()
    for c in ct:
        if local(c.tag) == "Default":
            defaults.add((c.get("Extension") or "").lower())
        elif local(c.tag) == "Override":
            p = (c.get("PartName") or "").lstrip("/")
            if p in overrides:
                errors.append("content types: duplicate override %s" % p)
            overrides.add(p)
            if p not in files:
                errors.append("content types: override for missing part %s" % p)
    for n in files:
        if n == "[Content_Types].xml":
            continue
        ext = n.rsplit(".", 1)[-1].lower() if "." in n else ""
        if n not in overrides and ext not in defaults:
            errors.append("no content type for part %s" % n)

    def read_rels(part):
        out = {}
        t = trees.get(rels_name(part))
        if t is None:
            return out
        for r in t:
            if local(r.tag) != "Relationship":
                continue
            rid = r.get("Id")
            if rid in out:
                errors.append("%s: duplicate relationship id %s" % (rels_name(part), rid))
            ext = r.get("TargetMode") == "External"
            tgt = r.get("Target") or ""
            if not ext:
                full = resolve(dir_of(part), tgt)
                if full not in files:
                    errors.append("%s: relationship %s -> %s does not exist" % (rels_name(part), rid, full))
            out[rid] = (r.get("Type") or "", tgt, ext)
        return out

    # every relationship part in the package must resolve
    for n in list(trees):
        if n.endswith(".rels") and "/_rels/" in "/" + n:
            d, f = n.rsplit("/_rels/", 1) if "/_rels/" in n else ("", n[len("_rels/"):])
            owner = (d + "/" if d else "") + f[: -len(".rels")]
            if owner and owner not in files and owner != "":
                errors.append("%s: relationship part without owner part %s" % (n, owner))
            read_rels(owner) if owner in files else None
    root_rels = read_rels("")
    wb_part = None
    for rid, (typ, tgt, ext) in root_rels.items():
        if typ.endswith("/officeDocument"):
            wb_part = resolve("", tgt)
    if wb_part is None or wb_part not in trees:
        result["fatal"] = "no workbook part"
        return result
    wb = trees[wb_part]
    wb_rels = read_rels(wb_part)
    # the main part's content type and the macro payload go together: a package that carries a VBA project
    # is a macro-enabled workbook (Excel refuses a plain workbook with a vbaProject part)
    main_ct = None
    for c in ct:
        if local(c.tag) == "Override" and (c.get("PartName") or "").lstrip("/") == wb_part:
            main_ct = c.get("ContentType") or ""
    has_vba = any(typ.endswith("/vbaProject") for (typ, tgt, ext) in wb_rels.values())
    if has_vba and main_ct is not None and "macroEnabled" not in main_ct:
        errors.append("workbook has a vbaProject relationship but the main part's content type is %s" % main_ct)
    if main_ct is None:
        errors.append("no Override content type for the main part %s" % wb_part)
    for n in files:
        if n.endswith("vbaProject.bin") and not has_vba:
            errors.append("part %s is not the target of a vbaProject relationship of the workbook" % n)
    wb_dir = dir_of(wb_part)
    sst, n_xfs, n_dxfs = [], None, 0
    for rid, (typ, tgt, ext) in wb_rels.items():
        p = resolve(wb_dir, tgt)
        if typ.endswith("/sharedStrings") and p in trees:
            for si in trees[p]:
                if local(si.tag) == "si":
                    sst.append(rst_text(si))
        if typ.endswith("/styles") and p in trees:
            st = trees[p]
            tables = {}
            for c in st:
                if ns_of(c.tag) == NS_MAIN:
                    tables[local(c.tag)] = [x for x in c if ns_of(x.tag) == NS_MAIN]
            n_xfs = len([x for x in tables.get("cellXfs", []) if local(x.tag) == "xf"]) if "cellXfs" in tables else None
            n_dxfs = len([x for x in tables.get("dxfs", []) if local(x.tag) == "dxf"])
            # every index inside styles.xml points inside its table (CT_Xf: fontId, fillId, borderId, numFmtId, xfId)
            n_fonts = len([x for x in tables.get("fonts", []) if local(x.tag) == "font"])
            n_fills = len([x for x in tables.get("fills", []) if local(x.tag) == "fill"])
            n_borders = len([x for x in tables.get("borders", []) if local(x.tag) == "border"])
            n_sxfs = len([x for x in tables.get("cellStyleXfs", []) if local(x.tag) == "xf"])
            fmt_ids = []
            for nf in tables.get("numFmts", []):
                if local(nf.tag) == "numFmt":
                    fmt_ids.append(nf.get("numFmtId"))
            if len(set(fmt_ids)) != len(fmt_ids):
                errors.append("%s: duplicate numFmtId in numFmts" % p)
            for which in ("cellStyleXfs", "cellXfs"):
                for i, xf in enumerate([x for x in tables.get(which, []) if local(x.tag) == "xf"]):
                    for attr, n, what in (("fontId", n_fonts, "fonts"), ("fillId", n_fills, "fills"), ("borderId", n_borders, "borders")):
                        v = xf.get(attr)
                        if v is not None and (not v.isdigit() or int(v) >= n):
                            errors.append("%s: %s[%d] %s %s outside %s (%d)" % (p, which, i, attr, v, what, n))
                    v = xf.get("numFmtId")
                    if v is not None and (not v.isdigit() or (int(v) >= 164 and v not in fmt_ids)):
                        errors.append("%s: %s[%d] numFmtId %s is not declared in numFmts" % (p, which, i, v))
                    v = xf.get("xfId")
                    if which == "cellXfs" and v is not None and "cellStyleXfs" in tables and (not v.isdigit() or int(v) >= n_sxfs):
                        errors.append("%s: cellXfs[%d] xfId %s outside cellStyleXfs (%d)" % (p, i, v, n_sxfs))
            for i, cs in enumerate([x for x in tables.get("cellStyles", []) if local(x.tag) == "cellStyle"]):
                v = cs.get("xfId")
                if v is not None and (not v.isdigit() or int(v) >= max(n_sxfs, 1)):
                    errors.append("%s: cellStyles[%d] xfId %s outside cellStyleXfs (%d)" % (p, i, v, n_sxfs))
            for d in tables.get("dxfs", []):
                for nf in d:
                    if local(nf.tag) == "numFmt" and nf.get("numFmtId") is None:
                        errors.append("%s: dxf numFmt without numFmtId" % p)
    seen_names, seen_ids, seen_parts = set(), set(), set()
    table_ids, table_names = set(), set()
    sheets_el = [c for c in wb if local(c.tag) == "sheets"]
    sheet_names = []
    if not sheets_el:
        result["fatal"] = "workbook has no <sheets>"
        return result
    for s in sheets_el[0]:
        if local(s.tag) != "sheet":
            continue
        name = s.get("name") or ""
        sheet_names.append(name)
        if name.lower() in seen_names:
            errors.append("duplicate sheet name %r" % name)
        seen_names.add(name.lower())
        if len(name) == 0 or len(name) > 31 or any(ch in name for ch in "[]:*?/\\"):
            errors.append("illegal sheet name %r" % name)
        sid = s.get("sheetId")
        if sid in seen_ids:
            errors.append("duplicate sheetId %s" % sid)
        seen_ids.add(sid)
        rid = s.get("{%s}id" % NS_REL)
        sheet = {"name": name, "state": s.get("state") or "visible", "cells": {}, "merges": [], "hyperlinks": {}}
        result["sheets"].append(sheet)
        if rid not in wb_rels:
            errors.append("sheet %r: r:id %s not in workbook rels" % (name, rid))
            continue
        typ, tgt, ext = wb_rels[rid]
        part = resolve(wb_dir, tgt)
        if part in seen_parts:
            errors.append("two sheets share part %s" % part)
        seen_parts.add(part)
        if not typ.endswith("/worksheet"):
            continue
        tree = trees.get(part)
        if tree is None:
            errors.append("sheet part %s missing or not well-formed" % part)
            continue
        srels = read_rels(part)
        for rid4, (typ4, tgt4, ext4) in srels.items():
            kind4 = typ4.rsplit("/", 1)[-1]
            p4 = resolve(dir_of(part), tgt4) if not ext4 else None
            t4 = trees.get(p4) if p4 else None
            if t4 is None:
                continue
            if kind4 == "table":
                for a in ("headerRowDxfId", "dataDxfId", "totalsRowDxfId", "headerRowBorderDxfId", "tableBorderDxfId", "totalsRowBorderDxfId"):
                    for el in t4.iter():
                        v = el.get(a)
                        if v is not None and (not v.isdigit() or int(v) >= n_dxfs):
                            errors.append("%s: %s %s outside dxfs (%d)" % (p4, a, v, n_dxfs))
                tid = t4.get("id")
                if tid in table_ids:
                    errors.append("%s: table id %s used twice" % (p4, tid))
                table_ids.add(tid)
                tn = (t4.get("displayName") or t4.get("name") or "").lower()
                if tn in table_names:
                    errors.append("%s: table name %s used twice" % (p4, tn))
                table_names.add(tn)
                cols4 = [x for x in t4.iter() if local(x.tag) == "tableColumn"]
                ids4 = [x.get("id") for x in cols4]
                if len(set(ids4)) != len(ids4):
                    errors.append("%s: duplicate tableColumn id" % p4)
            if kind4 == "comments":
                n_auth = len([a for a in t4.iter() if local(a.tag) == "author"])
                seen_refs = set()
                for cm in t4.iter():
                    if local(cm.tag) != "comment":
                        continue
                    aid = cm.get("authorId")
                    if aid is None or not aid.isdigit() or int(aid) >= n_auth:
                        errors.append("%s: comment %s authorId %s outside authors (%d)" % (p4, cm.get("ref"), aid, n_auth))
                    if cm.get("ref") in seen_refs:
                        errors.append("%s: two comments on %s" % (p4, cm.get("ref")))
                    seen_refs.add(cm.get("ref"))
        # child order
        last = -1
        for c in tree:
            if ns_of(c.tag) != NS_MAIN:
                continue
            i = ORDER_INDEX.get(local(c.tag))
            if i is None:
                errors.append("%s: unknown worksheet child <%s>" % (part, local(c.tag)))
                continue
            if i < last:
                errors.append("%s: <%s> out of CT_Worksheet order" % (part, local(c.tag)))
            if i == last and local(c.tag) not in ("conditionalFormatting",):
                errors.append("%s: <%s> occurs twice" % (part, local(c.tag)))
            last = max(last, i)
        # r:id anywhere in the sheet: must resolve, and to a relationship of the kind the element needs
        for el in tree.iter():
            rid2 = el.get("{%s}id" % NS_REL)
            if rid2 is not None and rid2 not in srels:
                errors.append("%s: <%s> r:id %s not in sheet rels" % (part, local(el.tag), rid2))
            elif rid2 is not None:
                want = REL_KIND.get(local(el.tag))
                got = srels[rid2][0].rsplit("/", 1)[-1]
                if want is not None and got not in want:
                    errors.append("%s: <%s> r:id %s resolves to a relationship of type %s" % (part, local(el.tag), rid2, got))
            dxf = el.get("dxfId")
            if dxf is not None and local(el.tag) == "cfRule":
                if not dxf.isdigit() or int(dxf) >= n_dxfs:
                    errors.append("%s: cfRule dxfId %s outside dxfs (%d)" % (part, dxf, n_dxfs))
        for c in tree:
            n = local(c.tag)
            if n == "sheetData":
                last_row = 0
                for row in c:
                    if local(row.tag) != "row":
                        continue
                    r = row.get("r")
                    rn = int(r) if r and r.isdigit() else last_row + 1
                    if rn <= last_row:
                        errors.append("%s: rows not strictly ascending at %s" % (part, rn))
                    if rn < 1 or rn > 1048576:
                        errors.append("%s: row %s out of range" % (part, rn))
                    rs = row.get("s")
                    if rs is not None and n_xfs is not None and (not rs.isdigit() or int(rs) >= max(n_xfs, 1)):
                        errors.append("%s: row %s style index %s outside cellXfs (%s)" % (part, rn, rs, n_xfs))
                    last_row = rn
                    last_col = 0
                    for cell in row:
                        if local(cell.tag) != "c":
                            continue
                        ref = cell.get("r") or ""
                        m = CELL_RE.match(ref)
                        if not m:
                            errors.append("%s: bad cell reference %r" % (part, ref))
                            continue
                        col = col_index(m.group(1))
                        if int(m.group(2)) != rn:
                            errors.append("%s: cell %s in row %s" % (part, ref, rn))
                        if col <= last_col:
                            errors.append("%s: cells not strictly ascending at %s" % (part, ref))
                        if col < 1 or col > 16384:
                            errors.append("%s: cell %s out of range" % (part, ref))
                        last_col = col
                        t = cell.get("t") or "n"
                        s_idx = cell.get("s")
                        if s_idx is not None and n_xfs is not None:
                            if not s_idx.isdigit() or int(s_idx) >= max(n_xfs, 1):
                                errors.append("%s: cell %s style index %s outside cellXfs (%s)" % (part, ref, s_idx, n_xfs))
                        v = f = None
                        inline = None
                        for ch in cell:
                            ln = local(ch.tag)
                            if ln == "v":
                                v = ch.text or ""
                            elif ln == "f":
                                f = ch.text or ""
                            elif ln == "is":
                                inline = rst_text(ch)
                        if t == "s":
                            if v is None:
                                val, kind = "", "text"
                            elif not v.strip().isdigit() or int(v) >= len(sst):
                                errors.append("%s: cell %s shared string index %s outside table (%d)" % (part, ref, v, len(sst)))
                                val, kind = "", "text"
                            else:
                                val, kind = sst[int(v)], "text"
                        elif t == "inlineStr":
                            val, kind = inline or "", "text"
                        elif t == "str":
                            val, kind = v or "", "text"
                        elif t == "b":
                            val, kind = v or "", "bool"
                        elif t == "e":
                            val, kind = v or "", "error"
                        else:
                            val, kind = v or "", "number"
                        if v is None and f is None and inline is None:
                            continue
                        sheet["cells"][ref] = {"k": kind, "v": val, "f": f}
            elif n == "cols":
                last_max = 0
                for col in c:
                    if local(col.tag) != "col":
                        continue
                    cs = col.get("style")
                    if cs is not None and n_xfs is not None and (not cs.isdigit() or int(cs) >= max(n_xfs, 1)):
                        errors.append("%s: col style index %s outside cellXfs (%s)" % (part, cs, n_xfs))
                    mn, mx = col.get("min") or "", col.get("max") or ""
                    if not mn.isdigit() or not mx.isdigit() or int(mn) < 1 or int(mx) > 16384 or int(mn) > int(mx):
                        errors.append("%s: col min/max %s..%s out of range" % (part, mn, mx))
                    elif int(mn) <= last_max:
                        errors.append("%s: col ranges overlap or are not ascending at %s" % (part, mn))
                    else:
                        last_max = int(mx)
            elif n == "mergeCells":
                for m in c:
                    if local(m.tag) == "mergeCell":
                        sheet["merges"].append(m.get("ref") or "")
                if len(set(sheet["merges"])) != len(sheet["merges"]):
                    errors.append("%s: duplicate merged range" % part)
            elif n == "hyperlinks":
                for h in c:
                    if local(h.tag) != "hyperlink":
                        continue
                    ref = h.get("ref") or ""
                    rid3 = h.get("{%s}id" % NS_REL)
                    if rid3 is not None and rid3 in srels:
                        sheet["hyperlinks"][ref] = [srels[rid3][1], False]
                    elif h.get("location") is not None:
                        sheet["hyperlinks"][ref] = [h.get("location"), True]
                    else:
                        sheet["hyperlinks"][ref] = [None, False]
    for c in wb:
        if local(c.tag) == "definedNames":
            for d in c:
                if local(d.tag) != "definedName":
                    continue
                lsid = d.get("localSheetId")
                scope = ""
                if lsid is not None:
                    if not lsid.isdigit() or int(lsid) >= len(sheet_names):
                        errors.append("definedName %s: localSheetId %s outside sheet list" % (d.get("name"), lsid))
                    else:
                        scope = sheet_names[int(lsid)]
                result["defined_names"].append([d.get("name") or "", scope, d.text or ""])
        if local(c.tag) == "bookViews":
            for v in c:
                at = v.get("activeTab")
                if at is not None and (not at.isdigit() or int(at) >= max(len(sheet_names), 1)):
                    errors.append("activeTab %s outside sheet list" % at)
    result["defined_names"].sort()
    return result


def main():
    if len(sys.argv) >= 2 and sys.argv[1] == "--server":
        for line in sys.stdin:
            path = line.strip()
            if not path:
                continue
            try:
                with open(path, "rb") as f:
                    res = validate(f.read())
            except Exception as e:  # noqa
                res = {"errors": [], "sheets": [], "defined_names": [], "fatal": "validator crashed: %r" % (e,), "crash": True}
            sys.stdout.write(json.dumps(res) + "\n")
            sys.stdout.flush()
        return 0
    rc = 0
    for p in sys.argv[1:]:
        with open(p, "rb") as f:
            res = validate(f.read())
        res["file"] = p
        print(json.dumps(res))
        if res["fatal"] or res["errors"]:
            rc = 1
    return rc


if __name__ == "__main__":
    sys.exit(main())
