#!/bin/bash
# usage: tools_regress_seeded.sh [id ...]  — every seeded change (default: all) is applied to /repo in turn and the
# check of its property is run at the quick tier; prints one line per change. /repo must be clean; it is left clean.
# A change counts as detected when the check exits 1 (or, for the few recorded in meta.json as caught by a sibling
# check or by the thorough tier only, when that one does).
cd "$(dirname "$0")" || exit 2
V=$(pwd)
ids="$@"; [ -z "$ids" ] && ids=$(ls seeded)
rc=0
for id in $ids; do
  p=${id%%-*}
  out=/tmp/regress-$id.log
  ./tools_try_mutant.sh $V/seeded/$id/patch.diff $p > $out 2>&1
  e=$(grep -o 'check exit=[0-9]*' $out | tail -1)
  if grep -q 'patch does not apply' $out; then e="patch-does-not-apply"; fi
  echo "$id $p $e $(grep -m1 'class=' $out | cut -c1-120)"
  [ "$e" = "check exit=1" ] || rc=1
done
exit $rc
