#!/bin/bash
# usage: tools_try_mutant.sh <patch.diff> <check args...>   — applies the patch to /repo, runs ./check, reverts
set -u
P=$1; shift
# VERIF_REPO: a scratch copy of the repository to work on instead of /repo (the check builds from it too)
REPO=${VERIF_REPO:-/repo}
V=$(cd "$(dirname "$0")" && pwd)
cd $REPO || exit 2
if ! git diff --quiet; then echo "/repo is dirty"; exit 2; fi
if ! git apply "$P" 2>/dev/null; then
  # a failed 3-way apply leaves unmerged paths: restore index and tree from HEAD (the tree was clean)
  if ! git apply --3way "$P" 2>/tmp/apply.err; then echo "patch does not apply"; cat /tmp/apply.err; git reset -q --hard HEAD; exit 3; fi
  git reset -q
fi
# evidence written by a run against a patched tree must not replace the committed evidence
K=/tmp/evidence.keep.$$
rm -rf $K; cp -r $V/evidence $K 2>/dev/null
cd $V && ./check "$@"; rc=$?
rm -rf $V/evidence; mv $K $V/evidence 2>/dev/null
git -C $REPO checkout -- . ; git -C $REPO clean -fdq src
echo "check exit=$rc"
exit $rc
