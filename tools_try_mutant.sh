#!/bin/bash
# usage: tools_try_mutant.sh <patch.diff> <check args...>   — applies the patch to /repo, runs ./check, reverts
set -u
P=$1; shift
cd /repo || exit 2
if ! git diff --quiet; then echo "/repo is dirty"; exit 2; fi
if ! git apply "$P" 2>/dev/null; then
  if ! git apply --3way "$P" 2>/tmp/apply.err; then echo "patch does not apply"; cat /tmp/apply.err; git checkout -- . ; exit 3; fi
  git reset -q
fi
cd /verif && ./check "$@"; rc=$?
git -C /repo checkout -- . ; git -C /repo clean -fdq src
echo "check exit=$rc"
exit $rc
